(* C17 — nsqadmin state-changing actions require an admin identity.  Property theorems only.
   [admin_routes], [ci_actions], [admin_auth_shape] are regenerated from nsqadmin/http.go and
   internal/clusterinfo/data.go on every run (gen/AdminRoutes.v); [admin_opt_fields] (struct
   tags of nsqadmin.Options), [admin_flags] (nsqadminFlagSet), the NewOptions defaults, the order
   of program.Start and [admin_doc_keys] (contrib/nsqadmin.cfg.example) likewise
   (gen/AdminOptTable.v). *)
From Coq Require Import String List NArith Bool.
From NSQV Require Import model.Judge model.Names gen.AdminRoutes gen.AdminOptTable gen.AdminModes model.Admin model.AdminCfg model.AdminReconf proofs.AdminProofs proofs.AdminCfgProofs proofs.AdminReconfProofs.
Import ListNotations.
Open Scope list_scope.
Open Scope N_scope.

(* The regenerated route table: every route whose handler reaches a mutating clusterinfo call
   (resp. swapOpts) has the admin guard (resp. the CIDR test) as its FIRST event, a read-only
   route carries no check that can answer 403, and the modelled steps of every handler project
   exactly onto the regenerated event summary (finite table: vm_compute is a proof). *)
Theorem C17_table : forallb route_ok admin_routes = true.
Proof. exact routes_table_ok. Qed.
Print Assumptions C17_table.

(* the fan-out steps of the clusterinfo actions as modelled = as regenerated from data.go *)
Theorem C17_actions_table : ci_actions = ci_model.
Proof. exact ci_table_current. Qed.
Print Assumptions C17_actions_table.

(* the identity test: exact membership, nothing else *)
Theorem C17_identity : forall admins user,
  is_authorized admins user = true <-> admins = [] \/ In user admins.
Proof. exact is_authorized_spec. Qed.
Print Assumptions C17_identity.

(* C17_guarded: for EVERY request (any method, path, headers, body, parameters, remote address,
   upstream world) that the router hands to a handler reaching a mutating clusterinfo call:
   when an admin list is configured and the ACL header value (absent = empty, look-alikes
   included: only membership counts) is not in it, the answer is 403 with NO upstream request
   and nothing swapped. *)
Theorem C17_guarded : forall cfg w p r rq,
  find_route admin_routes (rq_method rq) p = RHandler r ->
  existsb is_amut (ar_events r) = true ->
  cf_admins cfg <> [] -> ~ In (identity cfg rq) (cf_admins cfg) ->
  handle cfg w admin_routes p rq = mkOut 403 false [] false.
Proof. exact guarded_refused_full. Qed.
Print Assumptions C17_guarded.

(* ... and the /config routes (the only ones that swap nsqadmin's options): outside the allowed
   CIDR the answer is 403, nothing is swapped, whatever the method and the body *)
Theorem C17_config_guarded : forall cfg w p r rq c ip,
  find_route admin_routes (rq_method rq) p = RHandler r ->
  existsb (aev_eqb ASwap) (ar_events r) = true ->
  cf_cidr cfg = Some c -> rq_remote rq = Some ip -> cidr_contains c ip = false ->
  handle cfg w admin_routes p rq = mkOut 403 false [] false.
Proof. exact config_refused. Qed.
Print Assumptions C17_config_guarded.

(* read-only views stay available: a request routed to a handler that is not state-changing
   (or to the router's own 404/405/OPTIONS answers) is never answered 403, whatever the admin
   list and the identity *)
Theorem C17_readonly_never_403 : forall cfg w p rq,
  match find_route admin_routes (rq_method rq) p with
  | RHandler r => state_changing r = false
  | _ => True
  end ->
  o_status (handle cfg w admin_routes p rq) <> 403.
Proof. exact readonly_never_403. Qed.
Print Assumptions C17_readonly_never_403.

(* C17_allowed, part 1: with an admin identity the handler does exactly what it does when no
   admin list is configured *)
Theorem C17_allowed_as_open : forall cfg w p rq,
  cf_admins cfg = [] \/ In (identity cfg rq) (cf_admins cfg) ->
  handle cfg w admin_routes p rq = handle (open_cfg cfg) w admin_routes p rq.
Proof. exact authorized_as_open_full. Qed.
Print Assumptions C17_allowed_as_open.

(* C17_allowed, part 2: what the actions POST.  pause / unpause / empty: exactly one POST to
   every producer of the topic; 502 and no POST when no upstream answers the producer look-up *)
Theorem C17_allowed_producer_actions : forall w a name uri qs,
  In (name, uri, qs) producer_actions ->
  let r := get_topic_producers w (a_topic a) in
  let o := run_action w name a in
  match lr_producers r with
  | None => o_status o = 502 /\ posts (o_calls o) = []
  | Some ps => o_status o = 200 /\ posts (o_calls o) = post_to uri qs a ps /\
               (o_warn o = true <-> (lr_errs r + post_errs w ps)%nat <> 0%nat)
  end.
Proof. exact allowed_producer_actions. Qed.
Print Assumptions C17_allowed_producer_actions.

(* delete topic / channel: every nsqlookupd, then every producer found beforehand *)
Theorem C17_allowed_delete_actions : forall w a name uri qs,
  In (name, uri, qs) delete_actions ->
  let r := get_topic_producers w (a_topic a) in
  let o := run_action w name a in
  match lr_producers r with
  | None => o_status o = 502 /\ posts (o_calls o) = []
  | Some ps => o_status o = 200 /\
               posts (o_calls o) = post_to uri qs a (lookupd_addrs w) ++ post_to uri qs a ps /\
               (o_warn o = true <-> (lr_errs r + post_errs w (lookupd_addrs w) + post_errs w ps)%nat <> 0%nat)
  end.
Proof. exact allowed_delete_actions. Qed.
Print Assumptions C17_allowed_delete_actions.

Theorem C17_allowed_create : forall w a,
  let r := get_lookupd_topic_producers w (a_topic a) in
  let o := run_action w "CreateTopicChannel" a in
  if has_channel a then
    match lr_producers r with
    | None => o_status o = 502 /\
              posts (o_calls o) = post_to "topic/create" "topic=%s" a (lookupd_addrs w) ++
                                  post_to "channel/create" "topic=%s&channel=%s" a (lookupd_addrs w)
    | Some ps => o_status o = 200 /\
                 posts (o_calls o) = (post_to "topic/create" "topic=%s" a (lookupd_addrs w) ++
                                      post_to "channel/create" "topic=%s&channel=%s" a (lookupd_addrs w)) ++
                                     post_to "channel/create" "topic=%s&channel=%s" a ps
    end
  else o_status o = 200 /\ posts (o_calls o) = post_to "topic/create" "topic=%s" a (lookupd_addrs w).
Proof. exact allowed_create. Qed.
Print Assumptions C17_allowed_create.

Theorem C17_allowed_tombstone : forall w a,
  let r := get_node_producer w (a_node a) in
  let o := run_action w "TombstoneNodeForTopic" a in
  match lr_producers r with
  | None => o_status o = 502 /\
            posts (o_calls o) = post_to "topic/tombstone" "topic=%s&node=%s" a (lookupd_addrs w)
  | Some ps => o_status o = 200 /\
               posts (o_calls o) = post_to "topic/tombstone" "topic=%s&node=%s" a (lookupd_addrs w) ++
                                   post_to "topic/delete" "topic=%s" a ps
  end.
Proof. exact allowed_tombstone. Qed.
Print Assumptions C17_allowed_tombstone.

(* "every relevant nsqd": in nsqlookupd mode the producers acted upon are the duplicate-free
   union of what the answering nsqlookupds list, a hard error iff none answers; in direct mode
   the configured nsqds that have the topic *)
Theorem C17_relevant_producers_lookupd : forall w t ps,
  lr_producers (get_lookupd_topic_producers w t) = Some ps ->
  NoDup ps /\ forall x, In x ps <-> exists l qs, In (l, LProducers qs) (w_lookupds w) /\ In x qs.
Proof. exact lookupd_producers_union. Qed.
Print Assumptions C17_relevant_producers_lookupd.

Theorem C17_lookup_hard_iff_all_fail : forall w t,
  lr_producers (get_lookupd_topic_producers w t) = None <-> forall x, In x (w_lookupds w) -> snd x = LFail.
Proof. exact lookupd_hard_iff_all_fail. Qed.
Print Assumptions C17_lookup_hard_iff_all_fail.

Theorem C17_relevant_producers_direct : forall w t ps,
  lr_producers (get_nsqd_topic_producers w t) = Some ps ->
  forall x, In x ps <-> exists ad b p, In (ad, NStats true (Some (b, p))) (w_nsqds w) /\
                                      x = match b with [] => ad | _ => join_host_port b p end.
Proof. exact nsqd_producers_spec. Qed.
Print Assumptions C17_relevant_producers_direct.

(* the handlers pass the request's arguments to the action (two of them spelled out) *)
Theorem C17_delete_topic_handler : forall cfg w rq,
  rq_method rq = "DELETE"%string -> authorized cfg rq = true ->
  let o := run_action w "DeleteTopic" (mkArgs (rq_topic rq) (rq_channel rq) []) in
  handle cfg w admin_routes "/api/topics/:topic" rq =
  mkOut (o_status o) (if o_status o =? 200 then o_warn o else false) (o_calls o) false.
Proof. exact delete_topic_handler_runs. Qed.
Print Assumptions C17_delete_topic_handler.

Theorem C17_topic_action_handler : forall cfg w rq t c act name,
  rq_method rq = "POST"%string -> authorized cfg rq = true ->
  rq_body rq = BodyJson t c act -> rq_channel rq = [] ->
  action_name act false = Some name ->
  let o := run_action w name (mkArgs (rq_topic rq) [] []) in
  handle cfg w admin_routes "/api/topics/:topic" rq =
  mkOut (o_status o) (if o_status o =? 200 then o_warn o else false) (o_calls o) false.
Proof. exact topic_action_handler_runs. Qed.
Print Assumptions C17_topic_action_handler.

(* ... and the other four, with their validation: an invalid name / action / undecodable body is
   refused (400) with nothing sent upstream *)
Theorem C17_create_handler : forall cfg w rq t c a,
  rq_method rq = "POST"%string -> authorized cfg rq = true -> rq_body rq = BodyJson t c a ->
  Names.is_valid_name t = true -> (c = [] \/ Names.is_valid_name c = true) ->
  handle cfg w admin_routes "/api/topics" rq = after_action (run_action w "CreateTopicChannel" (mkArgs t c [])).
Proof. exact create_handler_runs. Qed.
Print Assumptions C17_create_handler.

Theorem C17_create_handler_validates : forall cfg w rq t c a,
  rq_method rq = "POST"%string -> authorized cfg rq = true -> rq_body rq = BodyJson t c a ->
  (Names.is_valid_name t = false \/ (c <> [] /\ Names.is_valid_name c = false)) ->
  handle cfg w admin_routes "/api/topics" rq = mkOut 400 false [] false.
Proof. exact create_handler_validates. Qed.
Print Assumptions C17_create_handler_validates.

Theorem C17_delete_channel_handler : forall cfg w rq,
  rq_method rq = "DELETE"%string -> authorized cfg rq = true ->
  handle cfg w admin_routes "/api/topics/:topic/:channel" rq =
  after_action (run_action w "DeleteChannel" (mkArgs (rq_topic rq) (rq_channel rq) [])).
Proof. exact delete_channel_handler_runs. Qed.
Print Assumptions C17_delete_channel_handler.

Theorem C17_channel_action_handler : forall cfg w rq t c act name,
  rq_method rq = "POST"%string -> authorized cfg rq = true ->
  rq_body rq = BodyJson t c act -> rq_channel rq <> [] ->
  action_name act true = Some name ->
  handle cfg w admin_routes "/api/topics/:topic/:channel" rq =
  after_action (run_action w name (mkArgs (rq_topic rq) (rq_channel rq) [])).
Proof. exact channel_action_handler_runs. Qed.
Print Assumptions C17_channel_action_handler.

Theorem C17_action_handler_validates : forall cfg w rq t c act,
  rq_method rq = "POST"%string -> authorized cfg rq = true -> rq_body rq = BodyJson t c act ->
  action_name act (negb (Nat.eqb (length (rq_channel rq)) 0)) = None ->
  handle cfg w admin_routes "/api/topics/:topic" rq = mkOut 400 false [] false.
Proof. exact action_handler_validates. Qed.
Print Assumptions C17_action_handler_validates.

Theorem C17_tombstone_handler : forall cfg w rq t c a,
  rq_method rq = "DELETE"%string -> authorized cfg rq = true -> rq_body rq = BodyJson t c a ->
  Names.is_valid_name t = true ->
  handle cfg w admin_routes "/api/nodes/:node" rq =
  after_action (run_action w "TombstoneNodeForTopic" (mkArgs t [] (rq_node rq))).
Proof. exact tombstone_handler_runs. Qed.
Print Assumptions C17_tombstone_handler.

Theorem C17_bad_body_refused : forall cfg w rq p r,
  find_route admin_routes (rq_method rq) p = RHandler r ->
  In (ar_handler r) ["createTopicChannelHandler"; "tombstoneNodeForTopicHandler"; "topicActionHandler"; "channelActionHandler"]%string ->
  authorized cfg rq = true -> rq_body rq = BodyBad ->
  handle cfg w admin_routes p rq = mkOut 400 false [] false.
Proof. exact bad_body_refused. Qed.
Print Assumptions C17_bad_body_refused.

(* C17_cidr: the test is a bit-prefix comparison *)
Theorem C17_cidr_v4 : forall a p ip x, p <= 32 -> to4 ip = IP4 x ->
  cidr_contains (C4 a p) ip = true <-> forall i, 32 - p <= i < 32 -> N.testbit a i = N.testbit x i.
Proof. exact cidr4_contains_prefix. Qed.
Print Assumptions C17_cidr_v4.

Theorem C17_cidr_v4_excludes_v6 : forall a p ip x, to4 ip = IP6 x -> cidr_contains (C4 a p) ip = false.
Proof. exact cidr4_excludes_v6. Qed.
Print Assumptions C17_cidr_v4_excludes_v6.

Theorem C17_cidr_v6 : forall a p ip x, p <= 128 ->
  to4 (IP6 (N.land a (mask_of 128 p))) = IP6 (N.land a (mask_of 128 p)) -> to4 ip = IP6 x ->
  cidr_contains (C6 a p) ip = true <-> forall i, 128 - p <= i < 128 -> N.testbit a i = N.testbit x i.
Proof. exact cidr6_contains_prefix. Qed.
Print Assumptions C17_cidr_v6.

(* /config is served iff no CIDR is configured or the client address is inside it *)
Theorem C17_cidr : forall allow remote,
  config_gate allow remote = GatePass <->
  allow = None \/ exists c ip, allow = Some c /\ remote = Some ip /\ cidr_contains c ip = true.
Proof. exact config_gate_spec. Qed.
Print Assumptions C17_cidr.

Theorem C17_config_served_iff : forall cfg w rq,
  (rq_method rq = "GET"%string \/ rq_method rq = "PUT"%string) ->
  let o := handle cfg w admin_routes "/config/:opt" rq in
  (config_gate (cf_cidr cfg) (rq_remote rq) = GatePass ->
     o = run_steps cfg w rq init_hst [SPutSwap; SGetOpt] /\ o_status o <> 403) /\
  (config_gate (cf_cidr cfg) (rq_remote rq) <> GatePass -> o_swapped o = false /\ o_calls o = [] /\
     (o_status o = 403 \/ o_status o = 400)).
Proof. exact config_served_iff. Qed.
Print Assumptions C17_config_served_iff.

(* ------------------------------------------------------------------ configuration paths *)

(* The property is quantified over the CONFIGURATION: an admin list, a header name, a CIDR and
   the upstream addresses reach the running nsqadmin from the command line, from the --config
   file, or from both.  The regenerated tables bind each of the five options to its documented
   flag and its documented config-file key (with the kind of flag and the default that make
   "not given" mean the documented default), and every `flag` tag names a flag that exists
   (options.Resolve panics otherwise). *)
Theorem C17_options_table : bindings_ok admin_tables = true.
Proof. exact bindings_current. Qed.
Print Assumptions C17_options_table.

(* every key of contrib/nsqadmin.cfg.example is the config key of exactly one resolvable field of
   the documented shape, every resolvable field is documented (dev_static_dir excepted), no two
   fields share a flag or a key *)
Theorem C17_options_documented : docs_ok admin_tables admin_doc_keys = true.
Proof. exact docs_current. Qed.
Print Assumptions C17_options_documented.

(* program.Start: defaults, flags, decoded file, Validate (log_level only), Resolve, New *)
Theorem C17_start_order : admin_start_shape = start_shape_expected /\ admin_validated_keys = validated_expected.
Proof. exact start_shape_current. Qed.
Print Assumptions C17_start_order.

(* for EVERY launch (any arguments, any file): options.Resolve over the regenerated tables yields
   exactly the documented configuration: command line over config file over default, under the
   documented names *)
Theorem C17_config_paths : forall l, resolve_launch admin_tables l = Some (spec_config l).
Proof. exact resolve_current. Qed.
Print Assumptions C17_config_paths.

Theorem C17_config_paths_any_table : forall T, bindings_ok T = true ->
  forall l, resolve_launch T l = Some (spec_config l).
Proof. exact resolve_is_documented. Qed.
Print Assumptions C17_config_paths_any_table.

Theorem C17_precedence_list : forall flag key l,
  (arg_values flag l <> [] -> spec_list flag key l = arg_values flag l) /\
  (arg_values flag l = [] -> forall v, file_value key l = Some v -> spec_list flag key l = coerce_list v) /\
  (arg_values flag l = [] -> file_value key l = None -> spec_list flag key l = []).
Proof. exact spec_list_paths. Qed.
Print Assumptions C17_precedence_list.

Theorem C17_precedence_str : forall flag key dflt l,
  (arg_values flag l <> [] -> spec_str flag key dflt l = last (arg_values flag l) []) /\
  (arg_values flag l = [] -> forall v, file_value key l = Some v -> spec_str flag key dflt l = coerce_str v) /\
  (arg_values flag l = [] -> file_value key l = None -> spec_str flag key dflt l = dflt).
Proof. exact spec_str_paths. Qed.
Print Assumptions C17_precedence_str.

(* nsqadmin comes up exactly for a valid documented configuration *)
Theorem C17_launch_starts_iff : forall cp l,
  launch_cfg admin_tables cp l <> None <->
  ((rc_lookupds (spec_config l) = [] /\ rc_nsqds (spec_config l) <> []) \/
   (rc_lookupds (spec_config l) <> [] /\ rc_nsqds (spec_config l) = [])) /\
  cidr_of cp (rc_cidr (spec_config l)) <> None.
Proof. exact launch_starts_iff. Qed.
Print Assumptions C17_launch_starts_iff.

(* C17_guarded over the configuration paths: the admin list and the header name as the operator
   wrote them, with the documented flag or the documented key *)
Theorem C17_guarded_any_path : forall cp l cfg rc w p r rq,
  launch_cfg admin_tables cp l = Some (cfg, rc) ->
  find_route admin_routes (rq_method rq) p = RHandler r ->
  existsb is_amut (ar_events r) = true ->
  spec_list "admin-user" "admin_users" l <> [] ->
  ~ In (header_get (rq_headers rq) (spec_str "acl-http-header" "acl_http_header" default_acl_header l))
       (spec_list "admin-user" "admin_users" l) ->
  handle cfg w admin_routes p rq = mkOut 403 false [] false.
Proof. exact launch_guarded. Qed.
Print Assumptions C17_guarded_any_path.

Theorem C17_allowed_any_path : forall cp l cfg rc w p rq,
  launch_cfg admin_tables cp l = Some (cfg, rc) ->
  spec_list "admin-user" "admin_users" l = [] \/
  In (header_get (rq_headers rq) (spec_str "acl-http-header" "acl_http_header" default_acl_header l))
     (spec_list "admin-user" "admin_users" l) ->
  handle cfg w admin_routes p rq = handle (open_cfg cfg) w admin_routes p rq.
Proof. exact launch_allowed. Qed.
Print Assumptions C17_allowed_any_path.

Theorem C17_config_guarded_any_path : forall cp l cfg rc w p r rq c ip,
  launch_cfg admin_tables cp l = Some (cfg, rc) ->
  find_route admin_routes (rq_method rq) p = RHandler r ->
  existsb (aev_eqb ASwap) (ar_events r) = true ->
  cidr_of cp (spec_str "allow-config-from-cidr" "allow_config_from_cidr" default_config_cidr l) = Some (Some c) ->
  rq_remote rq = Some ip -> cidr_contains c ip = false ->
  handle cfg w admin_routes p rq = mkOut 403 false [] false.
Proof. exact launch_config_guarded. Qed.
Print Assumptions C17_config_guarded_any_path.

(* ------------------------------------------------------------------ run-time reconfiguration *)

(* The upstream addresses are not fixed at start: PUT /config/nsqlookupd_http_addresses replaces
   the nsqlookupd list of a running nsqadmin, also of one started with --nsqd-http-address (then
   BOTH lists are set, which nsqadmin.New itself refuses).  Regenerated from the source
   (gen/AdminModes.v): GetTopicProducers / GetProducers choose nsqlookupd mode iff the nsqlookupd
   list is not empty; every handler hands clusterinfo the lists of the options in force at the
   time of the request, both, nsqlookupd first; doConfig can set nsqlookupd_http_addresses and
   log_level and nothing else. *)
Theorem C17_mode_table : ci_mode_choice = mode_choice_model.
Proof. exact mode_choice_current. Qed.
Print Assumptions C17_mode_table.

Theorem C17_handlers_pass_lists_in_force : forallb call_opts_ok ci_call_opts = true /\ actions_called = true.
Proof. exact call_opts_current. Qed.
Print Assumptions C17_handlers_pass_lists_in_force.

Theorem C17_put_options_table : cfg_put_options = put_options_model.
Proof. exact put_options_current. Qed.
Print Assumptions C17_put_options_table.

(* for EVERY configuration, lists in force and /config request: the request becomes the new
   nsqlookupd list exactly when it is a PUT of nsqlookupd_http_addresses whose body decodes, from
   inside the allowed CIDR (or with none configured); anything else leaves both lists alone *)
Theorem C17_reconf_accepts : forall cfg ad q,
  apply_cfgreq cfg admin_routes ad q =
  if sets_lookupds cfg q then mkAddrs (q_value q) (ad_nsqds ad) else ad.
Proof. exact apply_cfgreq_spec. Qed.
Print Assumptions C17_reconf_accepts.

Theorem C17_reconf_outside_ignored : forall cfg ad q,
  config_gate (cf_cidr cfg) (q_remote q) <> GatePass ->
  apply_cfgreq cfg admin_routes ad q = ad /\ o_swapped (cfgreq_outcome cfg admin_routes q) = false /\
  (o_status (cfgreq_outcome cfg admin_routes q) = 403 \/ o_status (cfgreq_outcome cfg admin_routes q) = 400).
Proof. exact cfgreq_outside_ignored. Qed.
Print Assumptions C17_reconf_outside_ignored.

(* for EVERY history of /config requests: the nsqd list is the one of the start, the nsqlookupd
   list is the value of the last accepted PUT (the list of the start when there was none) *)
Theorem C17_reconf_nsqds_fixed : forall cfg qs ad,
  ad_nsqds (run_cfgreqs cfg admin_routes ad qs) = ad_nsqds ad.
Proof. exact nsqds_never_change. Qed.
Print Assumptions C17_reconf_nsqds_fixed.

Theorem C17_reconf_last_accepted : forall cfg qs ad,
  ad_lookupds (run_cfgreqs cfg admin_routes ad qs) =
  match last_set cfg qs None with Some l => l | None => ad_lookupds ad end.
Proof. exact lookupds_last_accepted. Qed.
Print Assumptions C17_reconf_last_accepted.

Theorem C17_reconf_last_step : forall cfg qs q,
  last_set cfg (qs ++ [q]) None = if sets_lookupds cfg q then Some (q_value q) else last_set cfg qs None.
Proof. exact last_set_app. Qed.
Print Assumptions C17_reconf_last_step.

(* "every relevant nsqd": whatever the lists were at start and however they were changed, the
   producers of an action are looked up through the nsqlookupds in force when there is one, and
   through the static nsqd list only when there is none *)
Theorem C17_reconf_mode_rule : forall univ ad t,
  get_topic_producers (world_at univ ad) t =
  match ad_lookupds ad with
  | [] => get_nsqd_topic_producers (world_at univ ad) t
  | _ => get_lookupd_topic_producers (world_at univ ad) t
  end.
Proof. exact mode_rule. Qed.
Print Assumptions C17_reconf_mode_rule.

Theorem C17_reconf_lookup_asks_lookupds_in_force : forall univ ad t,
  ad_lookupds ad <> [] ->
  map uc_addr (lr_calls (get_topic_producers (world_at univ ad) t)) = ad_lookupds ad.
Proof. exact lookup_asks_lookupds_in_force. Qed.
Print Assumptions C17_reconf_lookup_asks_lookupds_in_force.

(* the actions after ANY history: pause / unpause / empty POST once to every producer found
   through the lists in force; delete POSTs to every nsqlookupd in force and to those producers;
   create goes to every nsqlookupd in force *)
Theorem C17_reconf_producer_actions : forall cfg univ ad0 qs a name uri qf,
  In (name, uri, qf) producer_actions ->
  let ad := run_cfgreqs cfg admin_routes ad0 qs in
  let w := world_at univ ad in
  let r := match ad_lookupds ad with
           | [] => get_nsqd_topic_producers w (a_topic a)
           | _ => get_lookupd_topic_producers w (a_topic a)
           end in
  let o := run_action w name a in
  match lr_producers r with
  | None => o_status o = 502 /\ posts (o_calls o) = []
  | Some ps => o_status o = 200 /\ posts (o_calls o) = post_to uri qf a ps
  end.
Proof. exact reconf_producer_actions. Qed.
Print Assumptions C17_reconf_producer_actions.

Theorem C17_reconf_delete_actions : forall cfg univ ad0 qs a name uri qf,
  In (name, uri, qf) delete_actions ->
  let ad := run_cfgreqs cfg admin_routes ad0 qs in
  let w := world_at univ ad in
  let r := match ad_lookupds ad with
           | [] => get_nsqd_topic_producers w (a_topic a)
           | _ => get_lookupd_topic_producers w (a_topic a)
           end in
  let o := run_action w name a in
  match lr_producers r with
  | None => o_status o = 502 /\ posts (o_calls o) = []
  | Some ps => o_status o = 200 /\ posts (o_calls o) = post_to uri qf a (ad_lookupds ad) ++ post_to uri qf a ps
  end.
Proof. exact reconf_delete_actions. Qed.
Print Assumptions C17_reconf_delete_actions.

Theorem C17_reconf_create_topic : forall cfg univ ad0 qs a,
  has_channel a = false ->
  let ad := run_cfgreqs cfg admin_routes ad0 qs in
  let o := run_action (world_at univ ad) "CreateTopicChannel" a in
  o_status o = 200 /\ posts (o_calls o) = post_to "topic/create" "topic=%s" a (ad_lookupds ad).
Proof. exact reconf_create_topic. Qed.
Print Assumptions C17_reconf_create_topic.

(* ------------------------------------------------------------------ non-vacuity *)

(* the state-changing routes of the current source tree *)
Example C17_state_changing_routes :
  state_changing_keys =
  [("POST", "/api/topics"); ("POST", "/api/topics/:topic"); ("POST", "/api/topics/:topic/:channel");
   ("DELETE", "/api/nodes/:node"); ("DELETE", "/api/topics/:topic"); ("DELETE", "/api/topics/:topic/:channel");
   ("GET", "/config/:opt"); ("PUT", "/config/:opt")]%string.
Proof. vm_compute. reflexivity. Qed.

(* every route of the table is found by the router under its own method and path, so the
   hypotheses of C17_guarded are met by each of the six mutating routes *)
Example C17_routes_reachable :
  forallb (fun r => match find_route admin_routes (ar_method r) (ar_path r) with
                    | RHandler r' => list_eqb aev_eqb (ar_events r') (ar_events r) && String.eqb (ar_handler r') (ar_handler r)
                    | _ => false end) admin_routes = true.
Proof. exact every_route_found. Qed.

Definition ex_alice : bytes := [97;108;105;99;101].
Definition ex_hdr : bytes := [88;45;70;111;114;119;97;114;100;101;100;45;85;115;101;114].   (* X-Forwarded-User *)
Definition ex_world : world :=
  mkWorld [([108;49], LProducers [[110;49]; [110;50]]); ([108;50], LProducers [[110;50]; [110;51]]); ([108;51], LFail)] []
          NodeInfoFail [[110;51]].
Definition ex_req (hs : headers) : areq :=
  mkReq "DELETE" hs (Some (IP4 2130706433)) [116] [] [] BodyBad OptUnknown PutEmpty.

(* "Alice", " alice", "alice " (not trimmed when set directly), "alic", "alicex", no header: 403, no call *)
Example C17_witness_lookalikes :
  map (fun v => handle (mkCfg [ex_alice] ex_hdr None) ex_world admin_routes "/api/topics/:topic"
                       (ex_req (match v with [] => [] | _ => [(ex_hdr, v)] end)))
      [[65;108;105;99;101]; [32;97;108;105;99;101]; [97;108;105;99;101;32]; [97;108;105;99]; [97;108;105;99;101;120]; []]
  = repeat (mkOut 403 false [] false) 6.
Proof. vm_compute. reflexivity. Qed.

(* the admin: topic/delete on the three nsqlookupds, then on the union n1, n2, n3 of the two
   answering ones; l3's failed look-up and n3's failed POST make it a 200 with a warning *)
Example C17_witness_admin :
  let o := handle (mkCfg [ex_alice] ex_hdr None) ex_world admin_routes "/api/topics/:topic" (ex_req [(ex_hdr, ex_alice)]) in
  (o_status o, o_warn o, map uc_addr (posts (o_calls o))) =
  (200, true, [[108;49]; [108;50]; [108;51]; [110;49]; [110;50]; [110;51]]).
Proof. vm_compute. reflexivity. Qed.

(* 127.0.0.1/8 (as the default option writes it): 127.255.0.9 inside, 128.0.0.1 outside,
   ::ffff:127.0.0.1 inside (To4), ::1 outside *)
Example C17_witness_cidr :
  map (cidr_contains (C4 2130706433 8)) [IP4 2147418121; IP4 2147483649; IP6 281472812449793; IP6 1]
  = [true; false; true; false].
Proof. vm_compute. reflexivity. Qed.

(* the admin list on each path: file only (array and comma-separated string), command line only
   (repeated flag), both (the command line wins); the other options from the file *)
Definition ex_bob : bytes := [98;111;98].
Definition ex_l1 : bytes := [108;49].
Definition ex_cidr30 : bytes := [49;50;55;46;48;46;48;46;48;47;51;48].   (* 127.0.0.0/30 *)
Definition ex_remote_id : bytes := [88;45;82;101;109;111;116;101;45;73;100].   (* X-Remote-Id *)
Definition ex_file (admins : cfgval) : list (string * cfgval) :=
  [("admin_users"%string, admins); ("acl_http_header"%string, CVStr ex_remote_id);
   ("allow_config_from_cidr"%string, CVStr ex_cidr30); ("nsqlookupd_http_addresses"%string, CVList [ex_l1])].

Example C17_witness_paths :
  map (fun l => option_map rc_admins (resolve_launch admin_tables l))
      [mkLaunch [] (ex_file (CVList [ex_alice; ex_bob]));
       mkLaunch [] (ex_file (CVStr [97;108;105;99;101;44;98;111;98]));
       mkLaunch [("admin-user"%string, ex_alice); ("lookupd-http-address"%string, ex_l1); ("admin-user"%string, ex_bob)] [];
       mkLaunch [("admin-user"%string, ex_bob)] (ex_file (CVList [ex_alice]));
       mkLaunch [("lookupd-http-address"%string, ex_l1)] []]
  = [Some [ex_alice; ex_bob]; Some [ex_alice; ex_bob]; Some [ex_alice; ex_bob]; Some [ex_bob]; Some []].
Proof. vm_compute. reflexivity. Qed.

(* a launch whose whole configuration is in the file comes up with it, and the non-admin's DELETE
   is refused there (hypotheses of C17_guarded_any_path met); 127.0.0.9 is outside 127.0.0.0/30 *)
Example C17_witness_file_launch :
  let l := mkLaunch [] (ex_file (CVList [ex_alice])) in
  let cp := [(ex_cidr30, Some (C4 2130706432 30))] in
  match launch_cfg admin_tables cp l with
  | Some (cfg, rc) =>
      (cf_admins cfg, cf_header cfg, cf_cidr cfg, rc_lookupds rc, rc_nsqds rc) =
      ([ex_alice], ex_remote_id, Some (C4 2130706432 30), [ex_l1], []) /\
      handle cfg ex_world admin_routes "/api/topics/:topic" (ex_req [(ex_remote_id, ex_bob)]) = mkOut 403 false [] false /\
      o_status (handle cfg ex_world admin_routes "/api/topics/:topic" (ex_req [(ex_remote_id, ex_alice)])) = 200 /\
      o_status (handle cfg ex_world admin_routes "/config/:opt"
                  (mkReq "GET" [] (Some (IP4 2130706441)) [] [] [] BodyBad OptLogLevel PutEmpty)) = 403
  | None => False
  end.
Proof. vm_compute. repeat split; reflexivity. Qed.

(* no address list, both address lists, an unparsable CIDR: no start *)
Example C17_witness_no_start :
  map (fun l => match launch_cfg admin_tables [([120], None)] l with Some _ => true | None => false end)
      [mkLaunch [] [];
       mkLaunch [("lookupd-http-address"%string, ex_l1); ("nsqd-http-address"%string, ex_l1)] [];
       mkLaunch [("lookupd-http-address"%string, ex_l1)] [("allow_config_from_cidr"%string, CVStr [120])];
       mkLaunch [("lookupd-http-address"%string, ex_l1)] [("allow_config_from_cidr"%string, CVStr [])]]
  = [false; false; false; true].
Proof. vm_compute. reflexivity. Qed.

(* run-time reconfiguration: nsqadmin started with --nsqd-http-address n0 (CIDR 127.0.0.1/8).  A PUT
   of [l1] from 10.0.0.1 is refused and changes nothing; the same PUT from 127.0.0.1 is accepted:
   both lists are now set.  l1 lists the producers n0 and n1: delete topic goes to l1, n0 AND n1
   (not to the static n0 alone); a PUT of [] brings the direct mode back: n0 alone *)
Definition ex_n0 : bytes := [110;48].
Definition ex_n1 : bytes := [110;49].
Definition ex_univ : world :=
  mkWorld [(ex_l1, LProducers [ex_n0; ex_n1])]
          [(ex_n0, NStats true (Some ([], [52]))); (ex_n1, NStats true (Some ([], [52])))] NodeInfoFail [].
Definition ex_cfg8 : acfg := mkCfg [ex_alice] ex_hdr (Some (C4 2130706433 8)).
Definition ex_put (v : list bytes) (ip : N) : cfgreq := mkCfgReq true OptLookupdAddrs PutValid v (Some (IP4 ip)).

Example C17_witness_reconf :
  let start := mkAddrs [] [ex_n0] in
  let act ad := map uc_addr (posts (o_calls (run_action (world_at ex_univ ad) "DeleteTopic" (mkArgs [116] [] [])))) in
  let outside := run_cfgreqs ex_cfg8 admin_routes start [ex_put [ex_l1] 167772161] in
  let inside := run_cfgreqs ex_cfg8 admin_routes start [ex_put [ex_l1] 167772161; ex_put [ex_l1] 2130706433] in
  let back := run_cfgreqs ex_cfg8 admin_routes start [ex_put [ex_l1] 2130706433; ex_put [] 2130706433] in
  (outside, act outside) = (start, [ex_n0]) /\
  (inside, act inside) = (mkAddrs [ex_l1] [ex_n0], [ex_l1; ex_n0; ex_n1]) /\
  (back, act back) = (start, [ex_n0]) /\
  sets_lookupds ex_cfg8 (ex_put [ex_l1] 2130706433) = true /\
  sets_lookupds ex_cfg8 (ex_put [ex_l1] 167772161) = false /\
  sets_lookupds ex_cfg8 (mkCfgReq true OptOtherKnown PutValid [ex_l1] (Some (IP4 2130706433))) = false.
Proof. vm_compute. repeat split; reflexivity. Qed.
