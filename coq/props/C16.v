(* C16 — nsqd keeps nsqlookupd in sync and tolerates its faults.  Property theorems only.
   [repo_cfg] is assembled from gen/SyncTab.v + gen/Consts.v (regenerated from the
   repository on every run); [C16_tables_say_what_the_proofs_need] is the obligation that
   breaks when the code stops closing a peer on error, stops re-registering channels,
   inverts the Exiting() test, registers exiting objects on reconnect, drops the negative-size
   refusal, starts the pump before the lookupd channels exist, or leaves an nsqlookupd out of the
   channel query for any reason other than an unknown address (e.g. the state of its TCP peer). *)
From Coq Require Import List NArith ZArith Bool.
From RecordUpdate Require Import RecordUpdate.
From NSQV Require Import gen.Consts gen.SyncTab model.Judge model.Sync
  proofs.SyncBase proofs.SyncInv proofs.SyncLoop proofs.SyncConv proofs.SyncData proofs.SyncProps.
Import ListNotations.
Open Scope nat_scope.
Open Scope bool_scope.

Theorem C16_tables_say_what_the_proofs_need : good_cfg repo_cfg.
Proof. exact repo_cfg_good. Qed.
Print Assumptions C16_tables_say_what_the_proofs_need.

(* ---- no nsqlookupd behaviour crashes nsqd: every operation sequence of the model — every
   fault script, hence every reply byte sequence on every link, every restart, every
   interleaving with churn — leaves the daemon running; [Crashed] is what an unchecked
   make([]byte, n<0) would give (see C16_witness_unchecked_make) *)
Theorem C16_no_panic : forall ops, run repo_cfg (Run init) ops <> Crashed.
Proof. exact repo_no_panic. Qed.
Print Assumptions C16_no_panic.

Theorem C16_no_panic_from_any_state : forall s ops, run repo_cfg (Run s) ops <> Crashed.
Proof. exact repo_no_panic_from. Qed.
Print Assumptions C16_no_panic_from_any_state.

(* the reader itself, for every limit and every byte sequence *)
Theorem C16_reader_no_panic : forall limit buf,
  read_response_bounded (repo_cfg <| g_max := limit |>) buf <> RRPanic.
Proof. exact repo_reader_no_panic. Qed.
Print Assumptions C16_reader_no_panic.

(* ---- convergence.  The statement of the property with no condition on the order in which
   the lookup loop receives the parked notifications ... *)
Definition C16_converge : Prop := converge_full.

(* ... is FALSE of the faithful model (finding K6, reproduced on the real daemon): topic
   deleted then re-created, the new topic's notification served first *)
Theorem C16_converge_refuted : ~ C16_converge.
Proof. exact converge_refuted. Qed.
Print Assumptions C16_converge_refuted.

Theorem C16_K6_witness_is_in_the_hazard_region :
  hazard_free repo_cfg (Run init) (k6_hist ++ k6_suf) = false /\ hazard_free repo_cfg (Run init) k6_hist = true.
Proof. exact k6_is_hazard. Qed.
Print Assumptions C16_K6_witness_is_in_the_hazard_region.

(* the schedule of the repaired finding K6b/F15 (a reconnect while a deleted topic is still in the
   map and its UNREGISTER has already been served) is now outside the hazard region and converges;
   without connectCallback's Exiting() skip the model resurrects the topic, as the real daemon did *)
Theorem C16_K6b_repaired :
  hazard_free repo_cfg (Run init) (k6b_hist ++ k6b_suf) = true /\
  match run repo_cfg (Run init) (k6b_hist ++ k6b_suf) with
  | Run s => bag s = [] /\ live_keys (objs s) = [] /\ map l_regs (links s) = [[]]
  | Crashed => False
  end.
Proof. exact k6b_repaired. Qed.
Print Assumptions C16_K6b_repaired.

Theorem C16_K6b_without_the_skip :
  match run cfg_without_exiting_skip (Run init) (k6b_hist ++ k6b_suf) with
  | Run s => bag s = [] /\ live_keys (objs s) = [] /\ map l_regs (links s) = [[KT 0%N]]
  | Crashed => False
  end.
Proof. exact k6b_without_the_skip. Qed.
Print Assumptions C16_K6b_without_the_skip.

(* the channel-deletion window (K6c): a reconnect while a topic's ONLY channel is exiting but still in
   channelMap.  connectCallback skips the channel and registers the bare topic because no LIVE channel
   was registered; with the test `len(topic.channelMap) == 0` instead, the topic is lost *)
Theorem C16_K6c_converges :
  hazard_free repo_cfg (Run init) (k6c_hist ++ k6c_suf) = true /\
  match run repo_cfg (Run init) (k6c_hist ++ k6c_suf) with
  | Run s => bag s = [] /\ live_keys (objs s) = [KT 0%N] /\ map l_regs (links s) = [[KT 0%N]]
  | Crashed => False
  end.
Proof. exact k6c_converges. Qed.
Print Assumptions C16_K6c_converges.

Theorem C16_K6c_with_len_channelMap :
  match run cfg_bare_only_when_map_empty (Run init) (k6c_hist ++ k6c_suf) with
  | Run s => bag s = [] /\ live_keys (objs s) = [KT 0%N] /\ map l_regs (links s) = [[]]
  | Crashed => False
  end.
Proof. exact k6c_with_len_channelMap. Qed.
Print Assumptions C16_K6c_with_len_channelMap.

(* The strongest true statements.  (1) Every history — any creations and deletions (two-step,
   interleaved), any fault scripts, restarts, reconfigurations, any interleaving — whose loop
   schedule stays outside the decidable region [hazard] (a REGISTER served while a conflicting
   UNREGISTER is still pending = K6; a channel REGISTER served after its deleted topic's
   UNREGISTER),
   followed by a fault-free suffix that serves the pending notifications and contains two
   heartbeat ticks: every configured, healthy nsqlookupd whose connection holds no unread
   residue ends connected, with registrations for this producer equal to nsqd's live topics
   and channels. *)
Theorem C16_converge_outside : forall hist suf s s' n k,
  hazard_free repo_cfg (Run init) (hist ++ suf) = true ->
  run repo_cfg (Run init) hist = Run s ->
  quiet suf = true -> run repo_cfg (Run s) suf = Run s' -> bag s' = [] -> 2 <= ticks suf ->
  nth_error (links s) n = Some k -> k_conf k = true -> healthy k -> clean k ->
  exists k', nth_error (links s') n = Some k' /\
             k_state k' = st_connected /\ l_alive k' = true /\
             keys_same (l_regs k') (live_keys (objs s')).
Proof. exact repo_converge_outside. Qed.
Print Assumptions C16_converge_outside.

(* (2) "... or a reconnect occurs afterwards": after ANY history (hazards included), a link
   whose connection is not alive converges, provided no pending UNREGISTER is still in
   conflict with an object whose own REGISTER has already been served, and the suffix itself
   is served in order *)
Theorem C16_converge_after_reconnect : forall hist suf s s' n k,
  run repo_cfg (Run init) hist = Run s ->
  K2 (objs s) (bag s) -> l_alive k = false ->
  quiet suf = true -> hazard_free repo_cfg (Run s) suf = true ->
  run repo_cfg (Run s) suf = Run s' -> bag s' = [] -> 2 <= ticks suf ->
  nth_error (links s) n = Some k -> k_conf k = true -> healthy k -> clean k ->
  exists k', nth_error (links s') n = Some k' /\
             k_state k' = st_connected /\ l_alive k' = true /\
             keys_same (l_regs k') (live_keys (objs s')).
Proof. exact repo_converge_after_reconnect. Qed.
Print Assumptions C16_converge_after_reconnect.

(* ---- pre-creation.  In every reachable state, GetTopic's query step records every
   non-ephemeral channel that an answering nsqlookupd knows, and does not start the topic ... *)
Theorem C16_precreate_query : forall os s t i k ch,
  run repo_cfg (Run init) os = Run s ->
  find_topic (objs s) t = Some i -> d_pc (getD (dats s) i) = 0 ->
  In k (links s) -> k_conf k = true -> k_info k = true -> l_up k = true -> l_http k = true ->
  In (t, ch) (l_known k) -> eph ch = false ->
  let x' := data_step repo_cfg (links s) (TopicAdvance t) (mkDs (objs s) (dats s) (bag s)) in
  In ch (d_want (getD (x_dats x') i)) /\ d_started (getD (x_dats x') i) = false.
Proof. exact repo_precreate_query. Qed.
Print Assumptions C16_precreate_query.

(* ... for EVERY subset of failing nsqlookupds the recorded set is exactly the non-ephemeral channels
   known to the asked lookupds that answer: a failing one takes nothing away (the len(errs) rule of
   GetLookupdTopicChannels, read from the source into [g_partial_query]); all failing => none ... *)
Theorem C16_precreate_exact : forall os s t i ch,
  run repo_cfg (Run init) os = Run s ->
  find_topic (objs s) t = Some i -> d_pc (getD (dats s) i) = 0 ->
  let x' := data_step repo_cfg (links s) (TopicAdvance t) (mkDs (objs s) (dats s) (bag s)) in
  (In ch (d_want (getD (x_dats x') i)) <->
   eph ch = false /\
   exists k, In k (links s) /\ k_conf k = true /\ k_info k = true /\ l_up k = true /\ l_http k = true /\
             In (t, ch) (l_known k)).
Proof. exact repo_precreate_exact. Qed.
Print Assumptions C16_precreate_exact.

Theorem C16_precreate_all_fail : forall ls t,
  (forall k, In k ls -> asked repo_cfg k = true -> answers k = false) -> query repo_cfg ls t = [].
Proof. exact repo_precreate_all_fail. Qed.
Print Assumptions C16_precreate_all_fail.

(* ... and the nsqd -> nsqlookupd TCP connection plays no part in it (note that C16_precreate_query and
   C16_precreate_exact have no hypothesis on k_state): link lists that differ only on the TCP side
   — lp.state, unread bytes, whether the nsqlookupd holds the connection, the registrations on it, the
   fault scripts — give the same query result ... *)
Theorem C16_precreate_ignores_connection_state : forall ls ls' t,
  Forall2 same_http_side ls ls' -> query repo_cfg ls t = query repo_cfg ls' t.
Proof. exact repo_precreate_ignores_tcp_state. Qed.
Print Assumptions C16_precreate_ignores_connection_state.

(* ... and no TCP fault script (refused, accepted-then-closed, stalled, cut, arbitrary reply bytes), no
   heartbeat and no notification served while it is active takes an nsqlookupd out of the set GetTopic
   asks: lp.Info outlives the connection *)
Theorem C16_asked_survives_tcp_faults : forall os s s' n k fs,
  run repo_cfg (Run init) os = Run s ->
  forallb (fun o => match o with FAccept _ _ | FReply _ _ | Tick | Deliver _ => true | _ => false end) fs = true ->
  run repo_cfg (Run s) fs = Run s' ->
  nth_error (links s) n = Some k -> asked repo_cfg k = true ->
  exists k', nth_error (links s') n = Some k' /\ asked repo_cfg k' = true.
Proof. exact repo_asked_survives_tcp_faults. Qed.
Print Assumptions C16_asked_survives_tcp_faults.

(* (one nsqlookupd that knows channel 2 of topic 7; its TCP connection is cut and every reconnect refused,
   its HTTP interface is up: the peer is in stateDisconnected, the channel is pre-created and receives the
   first message; under "ask only the connected peers" it would not exist) *)
Theorem C16_asking_disconnected_matters :
  match run repo_cfg (Run init) lookupd_tcp_down_http_up, run cfg_ask_only_connected (Run init) lookupd_tcp_down_http_up with
  | Run s, Run s' => map k_state (links s) = [st_disconnected] /\
                     map (fun j => (o_c (getO (objs s) j), d_q (getD (dats s) j))) (chans_of (objs s) 0) = [(2, [1])]%N /\
                     chans_of (objs s') 0 = []
  | _, _ => False
  end.
Proof. exact asking_disconnected_matters. Qed.
Print Assumptions C16_asking_disconnected_matters.

(* (two nsqlookupds, the second one's HTTP interface down, the first knows channel 2 of topic 7: it is
   pre-created and receives the first message; under "any error => no data" it would not exist) *)
Theorem C16_partial_query_matters :
  match run repo_cfg (Run init) two_lookupds_one_http_down, run cfg_query_all_or_nothing (Run init) two_lookupds_one_http_down with
  | Run s, Run s' => map (fun j => (o_c (getO (objs s) j), d_q (getD (dats s) j))) (chans_of (objs s) 0) = [(2, [1])]%N /\
                     chans_of (objs s') 0 = []
  | _, _ => False
  end.
Proof. exact partial_query_matters. Qed.
Print Assumptions C16_partial_query_matters.

(* ... at the step that calls Start, every recorded channel has its Channel object, with
   nothing delivered to it yet and the topic's queue (first message included) untouched ... *)
Theorem C16_precreate_start : forall os s t i,
  run repo_cfg (Run init) os = Run s ->
  find_topic (objs s) t = Some i ->
  d_pc (getD (dats s) i) = 1 -> d_todo (getD (dats s) i) = [] ->
  let x' := data_step repo_cfg (links s) (TopicAdvance t) (mkDs (objs s) (dats s) (bag s)) in
  d_started (getD (dats s) i) = false /\ d_started (getD (x_dats x') i) = true /\
  d_q (getD (x_dats x') i) = d_q (getD (dats s) i) /\
  forall ch, In ch (d_want (getD (dats s) i)) ->
    exists j, o_parent (getO (objs s) j) = Some i /\ o_c (getO (objs s) j) = ch /\
              d_q (getD (x_dats x') j) = [].
Proof. exact repo_precreate_start. Qed.
Print Assumptions C16_precreate_start.

(* ... no message leaves a topic before Start, and one pump iteration after it hands the head
   message to every channel in the map *)
Theorem C16_precreate_no_pump_before_start : forall c ls t x,
  (forall i, find_topic (x_objs x) t = Some i -> d_started (getD (x_dats x) i) = false) ->
  data_step c ls (Pump t) x = x.
Proof. exact pump_before_start. Qed.
Print Assumptions C16_precreate_no_pump_before_start.

Theorem C16_precreate_first_message : forall c ls t x i m q,
  QX x -> find_topic (x_objs x) t = Some i ->
  d_started (getD (x_dats x) i) = true -> o_exit (getO (x_objs x) i) = false ->
  d_q (getD (x_dats x) i) = m :: q -> chans_of (x_objs x) i <> [] ->
  let x' := data_step c ls (Pump t) x in
  d_q (getD (x_dats x') i) = q /\
  forall j, In j (chans_of (x_objs x) i) -> d_q (getD (x_dats x') j) = d_q (getD (x_dats x) j) ++ [m].
Proof. exact pump_delivers. Qed.
Print Assumptions C16_precreate_first_message.

(* ---- the data path is out of the lookup side's reach: no loop or fault operation changes a
   topic, a channel or a queue; and a sequence of publishes, pumps, creations and deletions
   gives the same topics, channels and queues whatever loop and fault operations are
   interleaved with it (GetTopic's query is the one read of lookupd state: the C16_precreate theorems) *)
Theorem C16_lookup_side_cannot_touch_data : forall c s o s',
  is_loop_op o || is_fault_op o = true -> step c s o = Run s' ->
  objs s' = objs s /\ dats s' = dats s.
Proof. exact lookup_side_cannot_touch_data. Qed.
Print Assumptions C16_lookup_side_cannot_touch_data.

Theorem C16_publish_independent : forall c os s1 s2 s1' s2',
  no_advance os = true ->
  objs s1 = objs s2 -> dats s1 = dats s2 ->
  run c (Run s1) os = Run s1' ->
  run c (Run s2) (filter is_data_op os) = Run s2' ->
  objs s1' = objs s2' /\ dats s1' = dats s2'.
Proof. exact publish_independent. Qed.
Print Assumptions C16_publish_independent.

(* while the loop is stuck in a slow nsqlookupd call the Notify goroutines pile up: at most two
   per topic/channel object ever created (its creation and its deletion) *)
Theorem C16_parked_notifications_bounded : forall c os s,
  run c (Run init) os = Run s -> length (bag s) <= 2 * length (objs s).
Proof. exact parked_notifications_bounded. Qed.
Print Assumptions C16_parked_notifications_bounded.

(* ---- non-vacuity *)
(* the Panic outcome is real: without the refusal a negative length prefix kills the model's daemon *)
Example C16_witness_unchecked_make :
  run cfg_without_neg_guard (Run init)
      [Reconfigure [0]; FReply 0 [RBytes [255; 255; 255; 255]%N]; Tick] = Crashed.
Proof. exact unguarded_make_panics. Qed.

(* the hypotheses of C16_converge_outside are met by a history with churn on two lookupds, a
   negative length prefix, an oversized one, a stall, a cut, a refused connection, a restart and
   a reconfiguration; and its conclusion is what the model computes *)
Definition ex_hist : list op :=
  [Reconfigure [0; 1]; TopicCreate 0; TopicAdvance 0; TopicAdvance 0; Deliver 0; ChanCreate 0 2; Deliver 0;
   FReply 0 [RBytes [255; 255; 255; 255]%N]; TopicCreate 1; TopicAdvance 1; TopicAdvance 1; Deliver 0;
   FReply 1 [RStall; RBytes [127; 255; 255; 255]%N]; Tick; Tick;
   FDown 1; FUp 1; ChanDeleteBegin 0 2; ChanDeleteEnd 0 2;
   FAccept 0 [ARefuse; AClose]; FReply 0 [RClose]; Tick; Tick;
   Reconfigure [1]; Reconfigure [0; 1]; TopicDeleteBegin 1; TopicDeleteEnd 1].
Definition ex_suf : list op := [Deliver 0; Deliver 0; Tick; Tick; Tick; Tick].
Example C16_witness_converge :
  hazard_free repo_cfg (Run init) (ex_hist ++ ex_suf) = true /\
  quiet ex_suf = true /\
  match run repo_cfg (Run init) (ex_hist ++ ex_suf) with
  | Run s => bag s = [] /\ live_keys (objs s) = [KT 0%N] /\
             map (fun k => keys_eqb (l_regs k) (live_keys (objs s))) (links s) = [true; true]
  | Crashed => False
  end.
Proof. vm_compute. repeat split; reflexivity. Qed.

(* pre-creation end to end: the lookupd knows channels 2, 4 and 5 (#ephemeral) of topic 7; a second
   publisher's message 9 is queued while the creator is still inside GetTopic; after Start both
   non-ephemeral channels receive 9 first *)
Example C16_witness_precreate :
  match run repo_cfg (Run init)
          [Reconfigure [0]; FKnown 0 [(7, 2); (7, 4); (7, 5)]%N; TopicCreate 7; Put 7 9; Pump 7;
           TopicAdvance 7; Pump 7; TopicAdvance 7; Pump 7; TopicAdvance 7; TopicAdvance 7; Put 7 8; Pump 7; Pump 7] with
  | Run s => map (fun j => (o_c (getO (objs s) j), d_q (getD (dats s) j))) (chans_of (objs s) 0)
             = [(2, [9; 8]); (4, [9; 8])]%N
  | Crashed => False
  end.
Proof. vm_compute. reflexivity. Qed.

(* the hypotheses of the two connection-state theorems are met: after an accept-then-close loop and an
   invalid length prefix the peer is disconnected, still asked, and its link differs from a connected
   one only on the TCP side *)
Example C16_witness_connection_state :
  match run repo_cfg (Run init) [Reconfigure [0]; FKnown 0 [(7, 2)]%N],
        run repo_cfg (Run init) [Reconfigure [0]; FKnown 0 [(7, 2)]%N;
                                 FReply 0 [RBytes [255; 255; 255; 255]%N]; Tick; FAccept 0 [AClose; AClose]; Tick; Tick] with
  | Run s, Run s' =>
      map k_state (links s) = [st_connected] /\ map k_state (links s') = [st_disconnected] /\
      map (asked repo_cfg) (links s') = [true] /\
      Forall2 same_http_side (links s) (links s') /\ query repo_cfg (links s') 7%N = [2%N]
  | _, _ => False
  end.
Proof. vm_compute. repeat split; try reflexivity. repeat constructor. Qed.
