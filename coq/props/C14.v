(* C14 - nsqlookupd answers reflect exactly the live registrations.
   Property theorems only.

   [run init h]     the RegistrationDB model (model/Lookupd.v: registration_db.go + the TCP
                    and HTTP handlers) after the history h
   [g_run g_init h] the plain registry (model/LookupSpec.v) after the same history
   A history is any list of: Identify / Register / Unregister / Ping / Disconnect per
   connection, the five admin calls with arbitrary (also missing / invalid / wildcard)
   arguments, and Advance d (time passing).  Every operation is covered: since the repair
   commit 109669a (F14) /topic/delete and /topic/tombstone refuse an invalid topic name, so
   the wildcard, whose effect depended on Go's map iteration order, is no longer reachable
   through the admin handlers. *)
From Coq Require Import List ZArith NArith Bool.
From NSQV Require Import gen.Consts gen.LookupdTables model.Judge model.Names model.Lookupd model.LookupSpec
  proofs.LookupdBase proofs.LookupdRefine proofs.LookupdShape proofs.LookupdQueries proofs.LookupdCorollaries
  proofs.LookupProtoProofs.
Import ListNotations.
Open Scope Z_scope.

(* ---- refinement: the code's data structure implements the plain registry *)
Theorem C14_refinement_step : forall s o,
  wf s -> req (abs (fst (step s o))) (g_step (abs s) o).
Proof. exact refine_step. Qed.
Print Assumptions C14_refinement_step.

Theorem C14_invariant : wf init /\ forall s o, wf s -> wf (fst (step s o)).
Proof. exact (conj wf_init wf_step). Qed.
Print Assumptions C14_invariant.

Theorem C14_refinement_history : forall h, req (abs (run init h)) (g_run g_init h).
Proof. exact refine_history. Qed.
Print Assumptions C14_refinement_history.

(* ---- equal answers, for every history *)
Theorem C14_topics : forall h, forall t,
  In t (q_topics (run init h)) <-> topic_listed (g_run g_init h) t = true.
Proof. exact history_topics. Qed.
Print Assumptions C14_topics.

Theorem C14_channels : forall h, forall t c,
  is_star t = false ->
  (In c (q_channels (run init h) t) <-> lookup_channel (g_run g_init h) t c = true).
Proof. exact history_channels. Qed.
Print Assumptions C14_channels.

Theorem C14_lookup_found : forall h, forall inactive lifetime t,
  is_star t = false ->
  (q_lookup inactive lifetime (run init h) t = None <-> lookup_found (g_run g_init h) t = false).
Proof. exact history_lookup_found. Qed.
Print Assumptions C14_lookup_found.

Theorem C14_lookup_channels : forall s inactive lifetime t chs ps,
  q_lookup inactive lifetime s t = Some (chs, ps) -> chs = q_channels s t.
Proof. exact q_lookup_channels. Qed.
Print Assumptions C14_lookup_channels.

Theorem C14_lookup_producers : forall h, forall inactive lifetime t p,
  is_star t = false ->
  (In p (lookup_producers inactive lifetime (run init h) t) <->
   lookup_found (g_run g_init h) t = true /\ lookup_producer inactive lifetime (g_run g_init h) t p = true).
Proof. exact history_lookup_producers. Qed.
Print Assumptions C14_lookup_producers.

Theorem C14_nodes : forall h, forall inactive lifetime p,
  In p (map fst (q_nodes inactive lifetime (run init h))) <-> node_listed inactive (g_run g_init h) p = true.
Proof. exact history_nodes. Qed.
Print Assumptions C14_nodes.

Theorem C14_node_topics : forall h, forall inactive lifetime p t b,
  In p (map fst (q_nodes inactive lifetime (run init h))) ->
  (In (t, b) (node_topics inactive lifetime (run init h) p) <->
   node_topic (g_run g_init h) p t = true /\ b = node_tomb lifetime (g_run g_init h) p t).
Proof. exact history_node_topics. Qed.
Print Assumptions C14_node_topics.

(* no answer lists anything twice *)
Theorem C14_no_duplicates : forall h,
  NoDup (q_topics (run init h)) /\
  (forall t, is_star t = false -> NoDup (q_channels (run init h) t)) /\
  (forall i l t, is_star t = false -> NoDup (lookup_producers i l (run init h) t)).
Proof.
  exact (fun h => conj (history_topics_nodup h) (conj (history_channels_nodup h) (history_lookup_producers_nodup h))).
Qed.
Print Assumptions C14_no_duplicates.

(* ---- the property's words: a topic's producers are the connected, recently-pinged nsqds
   that registered it and are not tombstoned for it *)
Theorem C14_producer_in_words : forall inactive lifetime r t p,
  lookup_producer inactive lifetime r t p = true <->
  (exists c, find_peer p (g_nodes r) = Some c /\ g_now r - c_last c <= inactive) /\
  registered r p t = true /\
  ~ (exists at_, g_tomb r t p = Some at_ /\ g_now r - at_ < lifetime).
Proof. exact lookup_producer_words. Qed.
Print Assumptions C14_producer_in_words.

(* an nsqd that disconnects is at once gone from every producer list and from /nodes;
   nobody else is affected; keys (also ephemeral ones) stay *)
Theorem C14_disconnect_gone : forall r inactive lifetime t p,
  lookup_producer inactive lifetime (g_disconnect r p) t p = false /\
  node_listed inactive (g_disconnect r p) p = false.
Proof. exact (fun r i l t p => conj (disconnect_gone_lookup r i l t p) (disconnect_gone_nodes r i p)). Qed.
Print Assumptions C14_disconnect_gone.

Theorem C14_disconnect_gone_model : forall s inactive lifetime t p,
  shape s -> is_star t = false -> ~ In p (lookup_producers inactive lifetime (disconnect s p) t).
Proof. exact model_disconnect_gone. Qed.
Print Assumptions C14_disconnect_gone_model.

Theorem C14_disconnect_others : forall r inactive lifetime t p q k,
  q <> p ->
  lookup_producer inactive lifetime (g_disconnect r p) t q = lookup_producer inactive lifetime r t q /\
  g_key (g_disconnect r p) k = g_key r k.
Proof. exact (fun r i l t p q k H => conj (disconnect_others_untouched r i l t p q H) (disconnect_keeps_keys r p k)). Qed.
Print Assumptions C14_disconnect_others.

(* a tombstone hides only the named producer for the named topic ... *)
Theorem C14_tombstone_only_named : forall r t c node u q,
  bytes_eqb u t && registered r q t && g_node_matches r node q = false ->
  g_tomb (g_tombstone r (QArgs (Some t) c (Some node))) u q = g_tomb r u q.
Proof. exact tombstone_only_named. Qed.
Print Assumptions C14_tombstone_only_named.

Theorem C14_tombstone_keeps_registrations : forall r q k p,
  g_prod (g_tombstone r q) k p = g_prod r k p /\ g_key (g_tombstone r q) k = g_key r k
  /\ g_nodes (g_tombstone r q) = g_nodes r.
Proof. exact tombstone_keeps_registrations. Qed.
Print Assumptions C14_tombstone_keeps_registrations.

Theorem C14_tombstone_hides : forall r t c node q inactive lifetime,
  is_valid_name t = true -> registered r q t = true -> g_node_matches r node q = true -> 0 < lifetime ->
  lookup_producer inactive lifetime (g_tombstone r (QArgs (Some t) c (Some node))) t q = false.
Proof. exact tombstone_hides. Qed.
Print Assumptions C14_tombstone_hides.

(* on the model itself, for every topic argument (invalid ones, the wildcard included, are
   refused and change nothing): registrations are untouched and a changed mark belongs to a
   producer registered for that topic whose node is the named one *)
Theorem C14_tombstone_any_request : forall s t c node u p,
  let s' := fst (h_tombstone s (QArgs (Some t) c (Some node))) in
  (forall k q, a_prod (db s') k q = a_prod (db s) k q) /\
  (a_tomb (db s') u p <> a_tomb (db s) u p ->
   a_tomb (db s') u p = Some (now s) /\ a_prod (db s) (topic_key u) p = true /\ node_matches s node p = true).
Proof. exact tombstone_any_request. Qed.
Print Assumptions C14_tombstone_any_request.

(* ... and lapses after the tombstone lifetime or when that producer unregisters the topic
   (REGISTER alone, or unregistering a channel, does not clear it) *)
Theorem C14_tombstone_lapses : forall r t q at_ d lifetime,
  g_tomb r t q = Some at_ -> lifetime <= g_now r + d - at_ ->
  hidden lifetime (g_step r (Advance d)) t q = false.
Proof. exact tombstone_lapses. Qed.
Print Assumptions C14_tombstone_lapses.

Theorem C14_unregister_clears_tombstone : forall r p t,
  connected r p = true -> check_names t [] = None -> g_tomb (g_unregister r p t []) t p = None.
Proof. exact unregister_clears. Qed.
Print Assumptions C14_unregister_clears_tombstone.

Theorem C14_register_keeps_tombstone : forall r p t c u q,
  connected r p = true -> check_names t c = None -> g_tomb (g_register r p t c) u q = g_tomb r u q.
Proof. exact register_keeps_tombstones. Qed.
Print Assumptions C14_register_keeps_tombstone.

(* ephemeral topic keys leave with their last producer's UNREGISTER *)
Theorem C14_ephemeral_topic : forall r p t,
  connected r p = true -> check_names t [] = None ->
  has_ephemeral_suffix t = true -> others r (topic_key t) p = false ->
  g_key (g_unregister r p t []) (topic_key t) = false.
Proof. exact ephemeral_topic_leaves_with_last. Qed.
Print Assumptions C14_ephemeral_topic.

(* ---- what the key sets are NOT (findings candidates, replayed on the real daemon by the
   fixed history "fixed-stale-keys"): the obvious listing rule "listed iff a connected
   producer registered it or an admin created it" fails (keys persist: documented upstream
   design), and "#ephemeral keys are removed when empty" fails when the last producer
   disconnects, or UNREGISTERs the topic while an #ephemeral channel key of it exists.
   Full statements: obvious_channel_listing, obvious_topic_listing,
   ephemeral_removed_when_empty in proofs/LookupdCorollaries.v. *)
Theorem C14_obvious_listing_refuted : ~ obvious_channel_listing /\ ~ obvious_topic_listing.
Proof. exact (conj obvious_channel_listing_refuted obvious_topic_listing_refuted). Qed.
Print Assumptions C14_obvious_listing_refuted.

Theorem C14_ephemeral_removed_when_empty_refuted :
  ~ ephemeral_removed_when_empty /\
  g_key (g_run g_init stale_ephemeral_disconnect) (topic_key w_eph) = true /\
  g_key (g_run g_init stale_ephemeral_disconnect) (chan_key w_eph w_ceph) = true /\
  g_key (g_run g_init stale_ephemeral_channel) (chan_key w_t w_ceph) = true /\
  (forall p, g_prod (g_run g_init stale_ephemeral_channel) (chan_key w_t w_ceph) p = false).
Proof. exact ephemeral_removed_when_empty_refuted. Qed.
Print Assumptions C14_ephemeral_removed_when_empty_refuted.

(* the thresholds the daemon runs with by default are the generated ones *)
Example C14_defaults : lookupd_opt_InactiveProducerTimeout = 300000000000 /\ lookupd_opt_TombstoneLifetime = 45000000000.
Proof. split; reflexivity. Qed.

(* ---- non-vacuity: a concrete history exercising the cases the unit tests do not reach *)
Definition t1 : name := [116; 49]%N.
Definition eph : name := ([101] ++ ephemeral_suffix)%N.
Definition c1 : name := [99; 49]%N.
Definition info1 : pinfo := mkInfo [104; 49]%N 4150 4151 [49]%N.
Definition info2 : pinfo := mkInfo [104; 50]%N 4150 4151 [49]%N.
Definition node1 : bytes := [104; 49; 58; 52; 49; 53; 49]%N.   (* "h1:4151" *)
Definition hist : list op :=
  [Identify 0%N info1; Identify 1%N info2; Register 0%N t1 c1; Register 1%N t1 [];
   HTombstone (QArgs (Some t1) None (Some node1));    (* hides 0 for t1 *)
   Register 0%N t1 c1;                                   (* does not clear it *)
   Advance 44000000000].
Definition hist2 : list op := hist ++ [Unregister 0%N t1 []; Register 0%N t1 []].
Definition hist3 : list op := hist ++ [Advance 1000000000].
Definition hist4 : list op := hist ++ [Advance 300000000000; Ping 1%N].
Definition hist5 : list op :=
  [Identify 0%N info1; Identify 1%N info2; Register 0%N eph []; Register 1%N eph []; Unregister 0%N eph []; Disconnect 1%N].
Definition star_q : query := QArgs (Some star) None (Some node1).
Definition hist6 : list op := [Identify 0%N info1; Identify 1%N info2; Register 0%N eph []; Register 1%N eph []; Unregister 0%N eph []; Unregister 1%N eph []].

Example C14_witness :
  lookup_producers 300000000000 45000000000 (run init hist) t1 = [1%N] /\        (* tombstoned, re-REGISTER did not help *)
  lookup_producers 300000000000 45000000000 (run init hist2) t1 = [1%N; 0%N] /\  (* UNREGISTER + REGISTER cleared it *)
  lookup_producers 300000000000 45000000000 (run init hist3) t1 = [0%N; 1%N] /\  (* the tombstone lapsed at 45 s *)
  lookup_producers 300000000000 45000000000 (run init hist4) t1 = [1%N] /\       (* 0 not pinged for > 300 s *)
  q_topics (run init hist5) = [eph] /\                                           (* a disconnect leaves the ephemeral key *)
  q_topics (run init hist6) = [] /\                                             (* the last UNREGISTER removes it *)
  (* F14 witnesses: the wildcard as topic of delete / tombstone is refused and changes nothing *)
  step (run init hist) (HDeleteTopic star_q) = (run init hist, OStatus 400) /\
  step (run init hist) (HTombstone star_q) = (run init hist, OStatus 400).
Proof. vm_compute. repeat split; reflexivity. Qed.
