(* C14 - nsqlookupd answers reflect exactly the live registrations.  Property theorems only. *)
From Coq Require Import List ZArith NArith.
From NSQV Require Import model.Judge model.Names model.Lookupd model.LookupSpec.
Import ListNotations.

Example C14_stub : run init [] = init.
Proof. reflexivity. Qed.
Print Assumptions C14_stub.
