(* C02 — exclusive in-flight ownership; redelivery only after REQ/timeout; FIN is final.
   Property theorems only. *)
From Coq Require Import List NArith ZArith.
From NSQV Require Import model.Core proofs.CoreBase proofs.CoreFlow proofs.CoreUnique.
Import ListNotations.
Open Scope N_scope.

(* In every history whose published ids are fresh (what C12 guarantees per topic), on
   every channel each message id occurs at most once among {queued, in flight, deferred,
   finished}: so it is held by at most one consumer at a time, a finished message is
   never delivered on that channel again, and a message is delivered again only after it
   left the in-flight set (by REQ or by a timeout scan, the only steps that move an
   in-flight entry back to the queue). *)
Theorem C02_single_holder : forall cfg ops, fresh_history [] ops = true -> AllTopics UniqueTopic (run cfg init ops).
Proof. exact unique_reachable. Qed.
Print Assumptions C02_single_holder.

Theorem C02_single_holder_meaning : forall tp ch, UniqueTopic tp -> In ch (t_chans tp) ->
  NoDup (map (fun e => m_id (i_msg e)) (c_ifl ch)) /\
  (forall e, In e (c_ifl ch) -> ~ In (m_id (i_msg e)) (map m_id (c_queue ch)) /\ ~ In (m_id (i_msg e)) (c_fin ch)) /\
  (forall m, In m (c_queue ch) -> ~ In (m_id m) (c_fin ch)).
Proof. exact unique_meaning. Qed.
Print Assumptions C02_single_holder_meaning.

(* the only steps that put a message (back) into a channel's queue *)
Theorem C02_delivery_needs_queue : forall cfg s k id now s' att,
  step cfg s (ODeliver k id now) = (s', RDelivered att) ->
  exists kl t c ch m q', find_client s k = Some kl /\ k_sub kl = Some (t, c) /\ get_chan s t c = Some ch /\
    remove_msg id (c_queue ch) = Some (m, q') /\ att = m_att (bump m).
Proof. exact delivery_from_queue. Qed.
Print Assumptions C02_delivery_needs_queue.

(* every delivery carries an attempts count exactly one higher than the previous one
   (starting at 1; the count is 16 bits wide on the wire and on disk) *)
Theorem C02_attempts : forall m, m_att m < 65535 -> m_att (bump m) = m_att m + 1.
Proof. exact attempts_increment_small. Qed.
Print Assumptions C02_attempts.

(* FIN, REQ or TOUCH for a message the connection does not currently hold is answered
   with the non-fatal failure and changes nothing at all *)
Theorem C02_foreign_fin : forall cfg s k id s', step cfg s (OFin k id) = (s', RFailed) -> s' = s.
Proof. exact foreign_fin_noop. Qed.
Print Assumptions C02_foreign_fin.
Theorem C02_foreign_req : forall cfg s k id d now s', step cfg s (OReq k id d now) = (s', RFailed) -> s' = s.
Proof. exact foreign_req_noop. Qed.
Print Assumptions C02_foreign_req.
Theorem C02_foreign_touch : forall cfg s k id now s', step cfg s (OTouch k id now) = (s', RFailed) -> s' = s.
Proof. exact foreign_touch_noop. Qed.
Print Assumptions C02_foreign_touch.
Theorem C02_accepted_iff_holds : forall cfg s k id kl t c ch,
  answering s k = inl (Some (kl, t, c, ch)) ->
  (snd (step cfg s (OFin k id)) = ROk <-> holds ch k id = true) /\
  (snd (step cfg s (OFin k id)) = RFailed <-> holds ch k id = false).
Proof. exact fin_accepted_iff_holds. Qed.
Print Assumptions C02_accepted_iff_holds.

(* a timeout scan takes a message from its holder only when its deadline has passed *)
Theorem C02_timeout_not_early : forall now l e, In e (fst (expired_ifl now l)) -> (i_deadline e <= now)%Z.
Proof. exact scan_never_early_ifl. Qed.
Print Assumptions C02_timeout_not_early.

Example C02_witness :
  let cfg := mkCfg 3 900000000000%Z in
  let ops := [OCreateTopic 1 false; OCreateChan 1 1 false false 0%Z; OConnect 1 60000000000%Z; OConnect 2 60000000000%Z;
              OSub 1 1 1 false false 0%Z; OSub 2 1 1 false false 0%Z; ORdy 1 1%Z; ORdy 2 1%Z;
              OPub 1 false [5] 3 0%Z 1%Z; ODeliver 1 5 2%Z] in
  fresh_history [] ops = true /\
  map snd [step cfg (run cfg init ops) (OFin 2 5); step cfg (run cfg init ops) (ODeliver 2 5 3%Z);
           step cfg (run cfg init ops) (OFin 1 5)] = [RFailed; RNotEnabled; ROk].
Proof. split; vm_compute; reflexivity. Qed.

(* The model is tied to the CURRENT source: the order-of-effects facts about nsqd's core
   functions that the model assumes (proofs/CoreSrcDefs.v) hold of the statement skeletons
   regenerated from /repo on this run (gen/CoreShape.v). *)
From NSQV Require proofs.CoreSrcDefs proofs.CoreSrcC02.
Theorem C02_source_shape : CoreSrcDefs.src_facts_C02.
Proof. exact CoreSrcC02.src_C02. Qed.
Print Assumptions C02_source_shape.
