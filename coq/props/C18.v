(* C18 — nsqadmin's cluster view equals the sum of its parts.  Property theorems only. *)
From Coq Require Import String List ZArith NArith Bool.
From Coq Require Import Permutation.
From NSQV Require Import model.Judge model.Cluster gen.ClusterTables proofs.ClusterProofs.
Import ListNotations.
Open Scope list_scope.
Open Scope Z_scope.

(* ---- the lists are duplicate-free unions *)
Theorem C18_uniq : forall l, NoDup (s_uniq l) /\ forall x, In x (s_uniq l) <-> In x l.
Proof. exact s_uniq_spec. Qed.
Print Assumptions C18_uniq.

Theorem C18_union : forall s a, NoDup s ->
  NoDup (s_union s a) /\ forall x, In x (s_union s a) <-> In x s \/ In x a.
Proof. exact s_union_spec. Qed.
Print Assumptions C18_union.

(* /api/topics, nsqlookupd mode and direct mode: for ANY number of upstreams and any answers,
   the list is duplicate-free, ordered, and holds exactly what some answering upstream lists *)
Theorem C18_topics_union_lookupd : forall ups v n, lookupd_topics ups = AOk v n ->
  NoDup v /\ sorted_b v /\ forall x, In x v <-> exists l ts, In (l, FOk ts) ups /\ In x ts.
Proof. exact lookupd_topics_union. Qed.
Print Assumptions C18_topics_union_lookupd.

Theorem C18_topics_union_direct : forall ups v n, nsqd_topics ups = AOk v n ->
  NoDup v /\ sorted_b v /\ forall x, In x v <-> exists l ts, In (l, FOk ts) ups /\ In x ts.
Proof. exact nsqd_topics_union. Qed.
Print Assumptions C18_topics_union_direct.

(* /api/nodes: one entry per TCP address, exactly the (non-null) producers some answering
   nsqlookupd reports *)
Theorem C18_nodes_union : forall ups v n, lookupd_producers_pure ups = AOk v n ->
  NoDup (ne_keys v) /\
  forall k, In k (ne_keys v) <-> exists l ps p, In (l, FOk ps) ups /\ In (Some p) ps /\ tcp_addr p = k.
Proof. exact nodes_union. Qed.
Print Assumptions C18_nodes_union.

(* the producers of a topic: one per HTTP address *)
Theorem C18_topic_producers_union : forall ups v n, topic_producers_pure ups = AOk v n ->
  NoDup (map http_addr v) /\
  forall k, In k (map http_addr v) <-> exists l ps p, In (l, FOk ps) ups /\ In (Some p) ps /\ http_addr p = k.
Proof. exact topic_producers_union. Qed.
Print Assumptions C18_topic_producers_union.

(* ---- every aggregated number is the sum over nodes *)
(* GetNSQDStats (channel view, counter view): under each key, each of the 13 summed counters
   is the int64 sum over ALL node entries with that key, paused = some node is paused, the node
   list and the client list are exactly those entries' *)
Theorem C18_channel_sums : forall ups sel k,
  let es := filter (fun e => bytes_eqb (ekey sel e) k) (all_entries ups sel) in
  match cmap_find k (snd (stats_value ups sel)) with
  | None => es = []
  | Some v =>
      es <> [] /\
      (forall f, In f cfields -> f (ca_num v) = w64 (sumZ (map (fun e => f (chan_num (snd e))) es))) /\
      ca_paused v = existsb (fun e => ch_paused (snd e)) es /\
      ca_nodes v = map (fun e => (p_addr (fst (fst e)), p_hostname (fst (fst e)), chan_num (snd e))) es /\
      ca_clients v = flat_map (fun e => map (fun cl => (p_addr (fst (fst e)), cl)) (nonnil (ch_clients (snd e)))) es
  end.
Proof. exact channel_sums. Qed.
Print Assumptions C18_channel_sums.

(* the per-node topic entries of the result: one per (answering producer, non-null topic) *)
Theorem C18_stats_topic_nodes : forall ups sel, fst (stats_value ups sel) = all_topic_nodes ups sel.
Proof. exact stats_topic_nodes. Qed.
Print Assumptions C18_stats_topic_nodes.

(* TopicStats.Add over the nodes (topic view): the 8 topic counters, paused, the node list *)
Theorem C18_topic_sums : forall nodes,
  let t := tagg_of nodes in
  (forall f, In f tfields -> f (ta_num t) = w64 (sumZ (map (fun a => f (tn_num a)) nodes))) /\
  ta_paused t = existsb tn_paused nodes /\
  ta_nodes t = map (fun a => (tn_node a, tn_host a)) nodes.
Proof. exact topic_sums. Qed.
Print Assumptions C18_topic_sums.

(* ... and every channel of the aggregated topic *)
Theorem C18_topic_channel_sums : forall nodes k,
  let cs := filter (fun a => bytes_eqb (ch_name a) k) (flat_map (fun a => nonnil (tn_chans a)) nodes) in
  (forall a, In a cs -> chan_i64 a) ->
  match cs_find k (ta_chans (tagg_of nodes)) with
  | None => cs = []
  | Some s =>
      cs <> [] /\ cs_name s = k /\
      (forall f, In f cfields -> f (cs_num s) = w64 (sumZ (map (fun a => f (chan_num a)) cs))) /\
      cs_paused s = existsb ch_paused cs
  end.
Proof. exact topic_channel_sums. Qed.
Print Assumptions C18_topic_channel_sums.

(* the int64 sum IS the sum whenever the sum fits *)
Theorem C18_sum_exact : forall z, in_i64 z -> w64 z = z.
Proof. exact w64_id. Qed.
Print Assumptions C18_sum_exact.

(* ---- failing upstreams *)
(* every clusterinfo Get* (a function of the answers under the len(errs) == len(upstreams) rule):
   hard error iff ALL upstreams fail (vacuously with none); otherwise its value is the value for
   the non-failing upstreams alone, which then carries no error, and the error count is non-zero
   iff some upstream fails *)
Theorem C18_partial_failure : forall (K A V : Type) (F : list (K * A) -> V) (ups : list (K * fetch A)),
  let r := error_rule (length ups) (nfailed ups) (F (answers ups)) in
  (r = AHard <-> forall u, In u ups -> failed u = true) /\
  (forall v n, r = AOk v n ->
     error_rule (length (ok_part ups)) (nfailed (ok_part ups)) (F (answers (ok_part ups))) = AOk v 0 /\
     n = nfailed ups /\ (n <> 0%nat <-> exists u, In u ups /\ failed u = true)).
Proof. exact partial_failure_general. Qed.
Print Assumptions C18_partial_failure.

(* /api/topics: 502 iff every upstream fails; else the view of the non-failing ones plus a
   warning iff some upstream fails *)
Theorem C18_topics_view : forall mode ups,
  ((forall u, In u ups -> failed u = true) -> topics_view mode ups = VStatus 502) /\
  (~ (forall u, In u ups -> failed u = true) ->
     exists v, topics_view mode ups = VOk v (warn_of (nfailed ups)) /\
               topics_view mode (ok_part ups) = VOk v false /\
               (warn_of (nfailed ups) = true <-> exists u, In u ups /\ failed u = true)).
Proof. exact topics_view_partial. Qed.
Print Assumptions C18_topics_view.

(* the two-stage views (topic, channel, counter): 502 iff the producer look-up or the /stats
   stage got no answer at all; otherwise computed from the answering producers only, with a
   warning iff a failure occurred in either stage *)
Theorem C18_two_stage_status : forall (V : Type) (producers : agg (list pinfo)) stats_of sel (k : stats_state -> bool -> res (view V)),
  (forall st w, exists v, k st w = Ok (VOk v w)) ->
  match producers with
  | AHard => two_stage producers stats_of sel k = Ok (VStatus 502)
  | AOk ps n1 =>
      let ups := map (fun p => (p, stats_of p)) ps in
      ((forall u, In u ups -> failed u = true) -> two_stage producers stats_of sel k = Ok (VStatus 502)) /\
      (~ (forall u, In u ups -> failed u = true) ->
         exists v, two_stage producers stats_of sel k = Ok (VOk v (warn_of n1 || warn_of (nfailed ups))) /\
                   k (stats_value (ok_part ups) sel) (warn_of n1 || warn_of (nfailed ups)) = Ok (VOk v (warn_of n1 || warn_of (nfailed ups))))
  end.
Proof. exact two_stage_status. Qed.
Print Assumptions C18_two_stage_status.

(* ---- nsqadmin itself never crashes *)
(* the model writes every dereference of upstream-decoded data and the tombstone index
   expression explicitly ([Crash] = panic in a fetch goroutine); for ALL inputs the guarded
   code computes the plain functions above, so no upstream answer takes the process down *)
Theorem C18_no_panic :
  (forall producers stats_of t, topic_view producers stats_of t <> Crash) /\
  (forall producers stats_of t c, channel_view producers stats_of t c <> Crash) /\
  (forall producers stats_of, counter_view producers stats_of <> Crash) /\
  (forall producers stats_of node, node_view producers stats_of node <> Crash) /\
  (forall mode ups direct, nodes_view mode ups direct <> Crash) /\
  (forall ups, lookupd_producers ups <> Crash) /\
  (forall ups, topic_producers ups <> Crash) /\
  (forall ups sel, nsqd_stats ups sel <> Crash) /\
  (forall topics tombs, pair_tombstones topics tombs <> Crash).
Proof. exact views_never_crash. Qed.
Print Assumptions C18_no_panic.

Theorem C18_stats_guarded_is_plain : forall ups sel, nsqd_stats ups sel = Ok (nsqd_stats_pure ups sel).
Proof. exact nsqd_stats_ok. Qed.
Print Assumptions C18_stats_guarded_is_plain.

(* Producer.UnmarshalJSON with the bounds check: one flag per topic, false beyond the flags given *)
Theorem C18_tombstones : forall topics tombs,
  pair_tombstones topics tombs = Ok (pair_pure 0 topics tombs) /\
  length (pair_pure 0 topics tombs) = length topics /\
  forall i t b, nth_error (pair_pure 0 topics tombs) i = Some (t, b) ->
                nth_error topics i = Some t /\ b = nth i tombs false.
Proof. exact tombstones_full. Qed.
Print Assumptions C18_tombstones.

(* the only non-200, non-502 outcome of the topic view: the selected topic's channel lists hold a
   null that is not the only channel there is -- a recovered panic (500), the process lives *)
Theorem C18_topic_view_spec : forall producers stats_of t,
  topic_view producers stats_of t =
  match producers with
  | AHard => Ok (VStatus 502)
  | AOk ps n1 =>
      match nsqd_stats_pure (map (fun p => (p, stats_of p)) ps) t with
      | AHard => Ok (VStatus 502)
      | AOk st n2 => if null_chan_panics (fst st) then Recovered
                     else Ok (VOk (tagg_of (fst st)) (warn_of n1 || warn_of n2))
      end
  end.
Proof. exact topic_view_spec. Qed.
Print Assumptions C18_topic_view_spec.

(* /api/counter: the rows are, up to order, one (topic:channel:node, message_count) per (answering
   node, non-null topic, non-null channel) entry, and the handler's map carries under each key the
   int64 sum of the counts reported under it *)
Theorem C18_counter_rows : forall ups,
  Permutation (map row_kv (counter_rows (snd (stats_value ups [])))) (map entry_row_kv (all_entries ups [])).
Proof. exact counter_rows_entries. Qed.
Print Assumptions C18_counter_rows.

Theorem C18_counter_sums : forall rows k,
  (forall r, In r rows -> in_i64 (row_val r)) ->
  let mine := filter (fun r => bytes_eqb (row_key r) k) rows in
  match rows_find k (counter_fold rows) with
  | None => mine = []
  | Some v => mine <> [] /\ v = w64 (sumZ (map row_val mine))
  end.
Proof. exact counter_rows_sum. Qed.
Print Assumptions C18_counter_sums.

(* direct mode: the producers of a topic are the configured nsqds whose /stats lists it and whose
   /info answers; the same error rule *)
Theorem C18_direct_topic_producers : forall t ups,
  let f := map (direct_topic_fetch t) ups in
  (stage1_producers (SDirectTopic t ups) = AHard <-> forall u, In u f -> failed u = true) /\
  (forall v n, stage1_producers (SDirectTopic t ups) = AOk v n ->
     n = nfailed f /\
     forall p, In p v <-> exists ad d i, In (ad, d) ups /\ dn_stats_ok d = true /\ smem t (dn_topics d) = true /\
                                        dn_info d = Some i /\ p = direct_pinfo ad i).
Proof. exact direct_topic_producers_spec. Qed.
Print Assumptions C18_direct_topic_producers.

(* ---- the order in which the upstreams answer does not matter (the code merges each answer under
   a lock in the completion order of its fetch goroutines: a permutation of the upstream list) *)
Theorem C18_order_independent_channels : forall ups ups' sel k, Permutation ups ups' ->
  match cmap_find k (snd (stats_value ups sel)), cmap_find k (snd (stats_value ups' sel)) with
  | Some v, Some v' =>
      (forall f, In f cfields -> f (ca_num v) = f (ca_num v')) /\ ca_paused v = ca_paused v' /\
      Permutation (ca_nodes v) (ca_nodes v') /\ Permutation (ca_clients v) (ca_clients v')
  | None, None => True
  | _, _ => False
  end.
Proof. exact channel_sums_order_independent. Qed.
Print Assumptions C18_order_independent_channels.

Theorem C18_order_independent_topic : forall nodes nodes', Permutation nodes nodes' ->
  (forall f, In f tfields -> f (ta_num (tagg_of nodes)) = f (ta_num (tagg_of nodes'))) /\
  ta_paused (tagg_of nodes) = ta_paused (tagg_of nodes') /\
  Permutation (ta_nodes (tagg_of nodes)) (ta_nodes (tagg_of nodes')).
Proof. exact topic_sums_order_independent. Qed.
Print Assumptions C18_order_independent_topic.

(* ---- the source shapes the model was written against, regenerated on every run
   (gen/ClusterTables.v): what TopicStats.Add / ChannelStats.Add sum and how they treat Paused
   and nil clients; the len(errs) rule of every Get*; the nil guards; the tombstone pairing *)
Theorem C18_source_shapes :
  (topic_add_fields = ["Depth"; "MemoryDepth"; "BackendDepth"; "MessageCount"; "DeliveryMsgCount";
                       "ZoneLocalMsgCount"; "RegionLocalMsgCount"; "GlobalMsgCount"]%string /\
   topic_add_other = ["if a.Paused"; "t.Paused = a.Paused"]%string /\
   length topic_add_fields = length tfields) /\
  (channel_add_fields = ["Depth"; "MemoryDepth"; "BackendDepth"; "InFlightCount"; "DeferredCount"; "RequeueCount";
                         "TimeoutCount"; "MessageCount"; "DeliveryMsgCount"; "ZoneLocalMsgCount"; "RegionLocalMsgCount";
                         "GlobalMsgCount"; "ClientCount"]%string /\
   channel_add_other = ["if a.Paused"; "c.Paused = a.Paused"]%string /\
   channel_add_clients = ["if c.E2eProcessingLatency == nil"; "if client != nil"; "c.Clients = append(c.Clients, client)"]%string /\
   length channel_add_fields = length cfields) /\
  (forallb get_rule_ok ci_error_rules = true /\
   map fst (filter (fun e => Nat.eqb (length (snd e)) 2) ci_error_rules) =
   ["GetLookupdProducers"; "GetLookupdTopicChannels"; "GetLookupdTopicProducers"; "GetLookupdTopics";
    "GetNSQDProducers"; "GetNSQDStats"; "GetNSQDTopicProducers"; "GetNSQDTopics"]%string) /\
  (ci_nil_guards = [("GetLookupdProducers", ["producer == nil"]); ("GetLookupdTopicProducers", ["p == nil"]);
                    ("GetNSQDStats", ["topic == nil"; "channel == nil"; "c == nil"])]%string /\
   quantile_nil_guards = ["UnmarshalJSON: p == nil => continue"; "Add: e2 == nil => return"]%string /\
   producer_tombstone_exprs = ["i < len(r.Tombstoned) && r.Tombstoned[i]"; "Tombstoned: tombstoned"]%string).
Proof. exact source_shapes_current. Qed.
Print Assumptions C18_source_shapes.

(* ------------------------------------------------------------------ non-vacuity *)
Definition b (s : list N) : bytes := s.
Definition ex_chan (name : bytes) (depth msgs : Z) (paused : bool) : chan :=
  mkChan name depth 1 2 0 0 0 msgs 0 0 0 1 paused [Some (mkClient [99%N] [104%N]); None] None.
Definition ex_topic (chans : list (option chan)) : topic := mkTopic [116%N] 10 4 100 1 2 3 false chans None.
Definition ex_p (a : N) : pinfo := mkP [a] [a; a].
Definition ex_ups : list (pinfo * fetch (list (option topic))) :=
  [(ex_p 49, FOk [Some (ex_topic [Some (ex_chan [99%N] 5 7 false); None]); None]);
   (ex_p 50, FFail);
   (ex_p 51, FOk [Some (ex_topic [Some (ex_chan [99%N] 9223372036854775807 11 true)])])].

(* two of three nodes answer (one with null elements): depth wraps as int64 does, messages add
   up, paused because one node is, two node entries, two non-null clients, one error *)
Example C18_witness_channel :
  match nsqd_stats ex_ups [116%N] with
  | Ok (AOk st n) =>
      match cmap_find [99%N] (snd st) with
      | Some v => (n_depth (ca_num v), n_msgs (ca_num v), ca_paused v, length (ca_nodes v), length (ca_clients v), n)
      | None => (0, 0, false, 0%nat, 0%nat, 0%nat)
      end
  | _ => (0, 0, false, 0%nat, 0%nat, 0%nat)
  end = (-9223372036854775804, 18, true, 2%nat, 2%nat, 1%nat).
Proof. vm_compute. reflexivity. Qed.

(* all fail: hard error; nobody configured: hard error too (0 == 0) *)
Example C18_witness_all_fail :
  (nsqd_stats_pure [(ex_p 49, FFail); (ex_p 50, FFail)] [], nsqd_stats_pure [] [],
   topics_view true [([49%N], FFail)], topics_view true [([49%N], FOk [[98%N]; [97%N]; [98%N]]); ([50%N], FFail)])
  = (AHard, AHard, VStatus 502, VOk [[97%N]; [98%N]] true).
Proof. vm_compute. reflexivity. Qed.

(* the F4 witness: two topics, one tombstone flag *)
Example C18_witness_F4 :
  pair_tombstones [[97%N]; [98%N]] [true] = Ok [([97%N], true); ([98%N], false)].
Proof. vm_compute. reflexivity. Qed.

(* a null channel inside the selected topic: the topic view is a recovered 500, the channel
   view of the same data is fine *)
Example C18_witness_recovered :
  (match topic_view (AOk [ex_p 49] 0) (fun _ => FOk [Some (ex_topic [Some (ex_chan [99%N] 5 7 false); None])]) [116%N] with
   | Recovered => true | _ => false end,
   match channel_view (AOk [ex_p 49] 0) (fun _ => FOk [Some (ex_topic [Some (ex_chan [99%N] 5 7 false); None])]) [116%N] [99%N] with
   | Ok (VOk v false) => true | _ => false end) = (true, true).
Proof. vm_compute. reflexivity. Qed.

(* ------------------------------------------------------------------ the e2e latency aggregates *)
(* ChannelStats.Add / TopicStats.Add also merge the nodes' end-to-end latency percentiles
   (model/Quantile.v: exact rationals, the division written as the partial operation it is). *)
From Coq Require Import QArith.
From NSQV Require Import model.Quantile proofs.QuantileProofs.
Open Scope Q_scope.

(* for ANY nodes -- absent blocks, null entries, any counts (zero on some or on all nodes),
   any percentile sets -- the aggregate of the channel view and the topic view's own aggregate
   are computed without a panic and without a division by zero (so every number is finite and
   the view can be encoded): the guarded code computes the plain merge *)
Theorem C18_e2e_never_undefined : forall nodes,
  e2e_of_nodes nodes =
  Ok (match nodes with
      | [] => None
      | _ => Some (mkEA (node_count nodes) (map Some (merge_all [] (node_values nodes))))
      end).
Proof. exact e2e_of_nodes_total. Qed.
Print Assumptions C18_e2e_never_undefined.

(* the channels of the topic view start from the first node's decoded block.  The decoder
   drops null entries (dc56edf), so for ANY blocks -- null entries anywhere, on any node -- the
   merge never meets a nil map: no panic, no division by zero *)
Theorem C18_e2e_topic_channel : forall e nodes,
  e2e_of_topic_channel (Some e :: nodes) =
  Ok (Some (mkEA (count_from (e_count e) nodes)
                 (map Some (merge_all (map (decode_pct (e_count e)) (nonnil (e_pcts e))) (node_values nodes))))).
Proof. exact e2e_of_topic_channel_total. Qed.
Print Assumptions C18_e2e_topic_channel.

Theorem C18_e2e_decoded_no_nil_map : forall e, existsb is_nil (ea_pcts (e2e_decode e)) = false.
Proof. exact decode_no_nil_map. Qed.
Print Assumptions C18_e2e_decoded_no_nil_map.

Theorem C18_e2e_views_never_panic : forall nodes,
  (exists v, e2e_of_nodes nodes = Ok v) /\ (exists v, e2e_of_topic_channel nodes = Ok v).
Proof. exact e2e_views_never_panic. Qed.
Print Assumptions C18_e2e_views_never_panic.

Theorem C18_e2e_topic_channel_first_nil : forall nodes,
  e2e_of_topic_channel (None :: nodes) = e2e_of_nodes nodes.
Proof. exact e2e_of_topic_channel_first_nil. Qed.
Print Assumptions C18_e2e_topic_channel_first_nil.

(* per quantile k: an entry iff some node lists k; count = the sum of the counts, max = the
   largest value, and, counts not being negative, average * count = sum of count * value: the
   documented weighted mean whenever something was counted, 0 when nothing was *)
Theorem C18_e2e_weighted_mean : forall values k,
  let m := mine k values in
  match find_q k (merge_all [] values) with
  | None => m = []
  | Some e =>
      m <> [] /\ pe_q e == k /\
      pe_count e == sumQ (map (oget pe_count) m) /\
      pe_max e = maxQ 0 (map (oget pe_max) m) /\
      ((forall v, In v m -> 0 <= oget pe_count v) ->
         pe_avg e * pe_count e == sumQ (map (fun v => oget pe_count v * oget pe_avg v) m) /\
         (0 < pe_count e ->
            pe_avg e == sumQ (map (fun v => oget pe_count v * oget pe_avg v) m) / sumQ (map (oget pe_count) m))) /\
      (pe_count e == 0 -> pe_avg e == 0)
  end.
Proof. exact e2e_merge_spec. Qed.
Print Assumptions C18_e2e_weighted_mean.

Theorem C18_e2e_merge_onto : forall p values k cur, find_q k p = Some cur ->
  let m := mine k values in
  exists e, find_q k (merge_all p values) = Some e /\ pe_q e = pe_q cur /\
    pe_count e == pe_count cur + sumQ (map (oget pe_count) m) /\
    pe_max e = maxQ (pe_max cur) (map (oget pe_max) m) /\
    (0 <= pe_count cur -> (forall v, In v m -> 0 <= oget pe_count v) ->
       pe_avg e * pe_count e == pe_avg cur * pe_count cur + sumQ (map (fun v => oget pe_count v * oget pe_avg v) m)) /\
    (m <> [] -> pe_count e == 0 -> pe_avg e == 0).
Proof. exact e2e_merge_onto. Qed.
Print Assumptions C18_e2e_merge_onto.

Theorem C18_e2e_untouched : forall p values k, mine k values = [] ->
  find_q k (merge_all p values) = find_q k p.
Proof. exact e2e_merge_untouched. Qed.
Print Assumptions C18_e2e_untouched.

(* one entry per quantile *)
Theorem C18_e2e_distinct : forall vs p, distinct_q p = true -> distinct_q (merge_all p vs) = true.
Proof. exact merge_all_distinct. Qed.
Print Assumptions C18_e2e_distinct.

(* none of it depends on the order in which the nodes are merged *)
Theorem C18_e2e_order_independent : forall values values' k e e', Permutation values values' ->
  find_q k (merge_all [] values) = Some e -> find_q k (merge_all [] values') = Some e' ->
  pe_count e == pe_count e' /\
  ((forall v, In v values -> 0 <= oget pe_count v) -> 0 < pe_count e -> pe_avg e == pe_avg e') /\
  (pe_count e == 0 -> pe_avg e == pe_avg e').
Proof. exact e2e_merge_order. Qed.
Print Assumptions C18_e2e_order_independent.

(* the statements of E2eProcessingLatencyAggregate.Add and of UnmarshalJSON's loop the model
   was written against, regenerated from the repository on every run *)
Theorem C18_quantile_source_shapes :
  quantile_add_body = quantile_add_expected /\ quantile_unmarshal_loop = quantile_unmarshal_expected /\
  quantile_unmarshal_lists = quantile_lists_expected.
Proof. exact quantile_shapes_current. Qed.
Print Assumptions C18_quantile_source_shapes.

(* non-vacuity: idle nodes (count 0 everywhere) give count 0 / average 0; two busy nodes with
   the same values give their common value and the sum of the counts; the division the zero
   test protects is 0 / 0; null entries (the F19 witnesses) are dropped and merge to a finite
   aggregate, only a hand-built nil map makes Add panic *)
Example C18_witness_e2e_idle :
  let idle := Some (mkE2e 0 [Some (mkPct (99 # 100) 0); Some (mkPct (1 # 2) 0)]) in
  let busy := Some (mkE2e 3 [Some (mkPct (99 # 100) 1200); Some (mkPct (1 # 2) 400)]) in
  (match e2e_of_nodes [idle; idle] with
   | Ok (Some e) => map (fun p => (Qeq_bool (oget pe_count p) 0, Qeq_bool (oget pe_avg p) 0)) (ea_pcts e)
   | _ => [] end,
   match e2e_of_nodes [idle; busy; None; busy] with
   | Ok (Some e) => map (fun p => (Qeq_bool (oget pe_count p) 6, Qeq_bool (oget pe_avg p) (oget pe_max p))) (ea_pcts e)
   | _ => [] end)
  = ([(true, true); (true, true)], [(true, true); (true, true)]).
Proof. exact e2e_witness_idle. Qed.

Example C18_witness_e2e_division : fdiv ((0 - 0) * 0) (0 + 0) = Recovered.
Proof. exact e2e_witness_division. Qed.

Example C18_witness_e2e_null_entry :
  (match e2e_of_topic_channel [Some (mkE2e 1 [None]); Some (mkE2e 1 [None])] with
   | Ok (Some e) => Some (ea_count e, length (ea_pcts e)) | _ => None end,
   match e2e_of_topic_channel [Some (mkE2e 1 [None]); Some (mkE2e 2 [Some (mkPct 0 7)])] with
   | Ok (Some e) => Some (ea_count e, length (ea_pcts e)) | _ => None end,
   e2e_of_receiver (Some (with_nil_maps 1 (e2e_decode (mkE2e 1 [None])))) [Some (mkE2e 2 [Some (mkPct 0 7)])])
  = (Some (2%Z, 0%nat), Some (3%Z, 1%nat), Recovered).
Proof. exact e2e_witness_null_entry. Qed.
