(* C15 - nsqlookupd survives arbitrary input.  Property theorems only. *)
From Coq Require Import List ZArith NArith.
From NSQV Require Import model.Judge model.Names model.Lookupd model.LookupProto.
Import ListNotations.

Example C15_stub : exec_conn (fun _ => BadJSON) init 0%N [] = Done init [].
Proof. reflexivity. Qed.
Print Assumptions C15_stub.
