(* C15 - nsqlookupd survives arbitrary input.  Property theorems only.

   [exec_conn decode s p input] (model/LookupProto.v): the byte stream [input], followed
   by EOF, arrives on TCP connection p of a daemon whose registry is s; [decode] is the
   JSON decoder of the IDENTIFY body (an arbitrary function: encoding/json is trusted, not
   modelled).  The outcome is [Panic] (a panic in a connection goroutine has no recover
   and kills the process) or [Done s' frames].  [http_exec s m path q] is one HTTP request. *)
From Coq Require Import List ZArith NArith Bool String.
From NSQV Require Import gen.LookupdTables model.Judge model.Names model.Lookupd model.LookupSpec model.LookupProto model.LookupNames
  proofs.LookupdBase proofs.LookupdRefine proofs.LookupdShape proofs.LookupProtoProofs proofs.LookupHttpFrame proofs.LookupNamesProofs.
Import ListNotations.

(* ---- no byte sequence on the TCP port crashes the daemon *)
Theorem C15_no_panic : forall decode s p input, exec_conn decode s p input <> Panic.
Proof. exact no_panic. Qed.
Print Assumptions C15_no_panic.

(* ... and it is the `bodyLen <= 0` refusal that makes this true: the same model without it
   dies on the 13-byte witness of the defect repaired by commit 7d88f0e; the generated
   handler summary shows the refusal in place, before make *)
Theorem C15_guard_needed : exec_conn_g false (fun _ => BadJSON) init 1%N f2_witness = Panic.
Proof. exact unguarded_panics. Qed.
Print Assumptions C15_guard_needed.

Theorem C15_guard_in_source : exists pre post,
  lookupd_IDENTIFY_summary = (pre ++ ["if bodyLen <= 0 => E_BAD_BODY"%string; "call make"%string] ++ post)%list
  /\ ~ In "call make"%string pre.
Proof. exact identify_guard_tied. Qed.
Print Assumptions C15_guard_in_source.

(* ---- the model's tables are the source's tables *)
Theorem C15_tables :
  map (fun e => (fst (fst e), snd (fst e), handler_name (snd e))) routes = lookupd_routes /\
  (exec_table = lookupd_exec /\ lookupd_exec_default = "E_INVALID"%string) /\
  (map (fun e => dispatch (bytes_of_string (fst (fst e)))) lookupd_exec = [CmdPing; CmdIdentify; CmdRegister; CmdUnregister]
   /\ map bytes_of_string lookupd_magics = [magic_v1]).
Proof. exact (conj routes_tied (conj exec_table_tied dispatch_tied)). Qed.
Print Assumptions C15_tables.

(* tcp.go Handle: the short-read branch and the clause for every other magic end the function
   (the latter after answering E_BAD_PROTOCOL and closing) before prot - nil there - is used *)
Theorem C15_handle_in_source : handle_shape = lookupd_Handle_shape.
Proof. exact handle_tied. Qed.
Print Assumptions C15_handle_in_source.

Theorem C15_magic_refusal_returns : exists pre post,
  lookupd_Handle_shape =
    (pre ++ ["default:"; "call protocol.SendResponse E_BAD_PROTOCOL"; "call Close"; "return"; "}"]%string ++ post)%list
  /\ ~ In "call NewClient"%string pre /\ hd_error post = Some "call NewClient"%string
  /\ exists pre', pre = (["call make"; "call io.ReadFull"; "if err != nil {"; "call Close"; "return"; "}"]%string ++ pre')%list.
Proof. exact magic_refusal_returns. Qed.
Print Assumptions C15_magic_refusal_returns.

Theorem C15_handler_summaries :
  identify_summary = lookupd_IDENTIFY_summary /\
  register_summary = lookupd_REGISTER_summary /\
  unregister_summary = lookupd_UNREGISTER_summary /\
  get_topic_chan_summary = lookupd_getTopicChan_summary /\
  ioloop_exit_summary = lookupd_IOLoop_exit_summary /\
  ioloop_read_summary = lookupd_IOLoop_read_summary /\
  lookupd_PING_summary = [] /\
  http_summaries = [lookupd_doCreateTopic_summary; lookupd_doDeleteTopic_summary; lookupd_doCreateChannel_summary;
                    lookupd_doDeleteChannel_summary; lookupd_doTombstoneTopicProducer_summary;
                    lookupd_doLookup_summary; lookupd_doChannels_summary] /\
  filter_skip_cond = lookupd_filter_skip_cond /\
  is_tombstoned_expr = lookupd_is_tombstoned_expr.
Proof. exact summaries_tied. Qed.
Print Assumptions C15_handler_summaries.

(* ---- the registry identity of a connection is its socket's, not the IDENTIFY body's: the
   model keys every producer entry by the connection (so C15_isolation below holds for every
   JSON decoder); in the source the id is written once, before json.Unmarshal, from
   client.RemoteAddr(), and every registry call of the handlers is keyed by client.peerInfo *)
Theorem C15_identity_in_source :
  identify_identity = lookupd_IDENTIFY_peerinfo_writes /\ identity_uses = lookupd_identity_uses.
Proof. exact identity_tied. Qed.
Print Assumptions C15_identity_in_source.

Theorem C15_identity_from_socket :
  exists post, lookupd_IDENTIFY_peerinfo_writes =
    ("peerInfo := PeerInfo{id: client.RemoteAddr().String()}"%string :: "call json.Unmarshal(&peerInfo)"%string :: post)
    /\ forall w, In w post -> w <> "call json.Unmarshal(&peerInfo)"%string /\ prefix "peerInfo.id" w = false
                             /\ prefix "peerInfo =" w = false /\ prefix "client.peerInfo.id" w = false.
Proof. exact identity_from_socket. Qed.
Print Assumptions C15_identity_from_socket.

(* ---- malformed commands get their code and are refused: the connection ends through the
   exit path on the state the command found, nothing is registered *)
Theorem C15_unknown_command : forall decode s p line rest w params,
  split_sp (trim_space line) = w :: params -> dispatch w = CmdInvalid ->
  exec_line true decode s p line rest = OneEnd (disconnect s p) (FErr E_INVALID).
Proof. exact unknown_command_invalid. Qed.
Print Assumptions C15_unknown_command.

Theorem C15_no_params : forall decode s p line rest w,
  split_sp (trim_space line) = [w] -> dispatch w = CmdRegister \/ dispatch w = CmdUnregister ->
  exec_line true decode s p line rest = OneEnd (disconnect s p) (FErr E_INVALID).
Proof. exact register_no_params_invalid. Qed.
Print Assumptions C15_no_params.

Theorem C15_before_identify : forall decode s p line rest w t more,
  split_sp (trim_space line) = w :: t :: more -> dispatch w = CmdRegister \/ dispatch w = CmdUnregister ->
  is_node s p = false ->
  exec_line true decode s p line rest = OneEnd (disconnect s p) (FErr E_INVALID).
Proof. exact register_before_identify_invalid. Qed.
Print Assumptions C15_before_identify.

Theorem C15_bad_topic : forall decode s p line rest w t more,
  split_sp (trim_space line) = w :: t :: more -> dispatch w = CmdRegister \/ dispatch w = CmdUnregister ->
  is_node s p = true -> is_valid_name t = false ->
  exec_line true decode s p line rest = OneEnd (disconnect s p) (FErr E_BAD_TOPIC).
Proof. exact register_bad_topic. Qed.
Print Assumptions C15_bad_topic.

Theorem C15_bad_channel : forall decode s p line rest w t c more,
  split_sp (trim_space line) = w :: t :: c :: more -> dispatch w = CmdRegister \/ dispatch w = CmdUnregister ->
  is_node s p = true -> is_valid_name t = true -> c <> [] -> is_valid_name c = false ->
  exec_line true decode s p line rest = OneEnd (disconnect s p) (FErr E_BAD_CHANNEL).
Proof. exact register_bad_channel. Qed.
Print Assumptions C15_bad_channel.

Theorem C15_identify_again : forall decode s p line rest w params,
  split_sp (trim_space line) = w :: params -> dispatch w = CmdIdentify -> is_node s p = true ->
  exec_line true decode s p line rest = OneEnd (disconnect s p) (FErr E_INVALID).
Proof. exact identify_again_invalid. Qed.
Print Assumptions C15_identify_again.

(* nonsensical body sizes (missing size bytes, zero, negative, more than what follows),
   undecodable JSON, missing fields *)
Theorem C15_identify_bad_body : forall decode s p line rest w params,
  split_sp (trim_space line) = w :: params -> dispatch w = CmdIdentify -> is_node s p = false ->
  (List.length rest < 4)%nat
  \/ (exists b0 b1 b2 b3 rest', rest = b0 :: b1 :: b2 :: b3 :: rest' /\
        ((be_int32 b0 b1 b2 b3 <= 0)%Z
         \/ (List.length rest' < Z.to_nat (be_int32 b0 b1 b2 b3))%nat
         \/ decode (firstn (Z.to_nat (be_int32 b0 b1 b2 b3)) rest') = BadJSON
         \/ exists i, decode (firstn (Z.to_nat (be_int32 b0 b1 b2 b3)) rest') = Json i /\ fields_missing i = true)) ->
  exec_line true decode s p line rest = OneEnd (disconnect s p) (FErr E_BAD_BODY).
Proof. exact identify_bad_body. Qed.
Print Assumptions C15_identify_bad_body.

Theorem C15_wrong_magic : forall decode s p m0 m1 m2 m3 rest,
  bytes_eqb [m0; m1; m2; m3] magic_v1 = false ->
  exec_conn decode s p (m0 :: m1 :: m2 :: m3 :: rest) = Done s [FBadProtocol].
Proof. exact wrong_magic. Qed.
Print Assumptions C15_wrong_magic.

Theorem C15_errors_are_final : forall decode s p input s' fs,
  exec_conn decode s p input = Done s' fs ->
  forallb (fun f => negb (is_err_frame f)) (removelast fs) = true.
Proof. exact errors_are_final. Qed.
Print Assumptions C15_errors_are_final.

(* ---- no byte sequence changes registrations that belong to another connection *)
Theorem C15_conn_is_own_ops : forall decode s p input s' fs,
  exec_conn decode s p input = Done s' fs ->
  exists ops, forallb (op_on p) ops = true /\ s' = run s ops.
Proof. exact conn_is_ops. Qed.
Print Assumptions C15_conn_is_own_ops.

Theorem C15_isolation : forall decode s p input s' fs q,
  wf s -> q <> p -> exec_conn decode s p input = Done s' fs ->
  same_for q (abs s') (abs s) /\ wf s'.
Proof. exact isolation. Qed.
Print Assumptions C15_isolation.

Theorem C15_isolation_lookup : forall decode s p input s' fs q inactive lifetime t,
  wf s -> q <> p -> exec_conn decode s p input = Done s' fs ->
  lookup_producer inactive lifetime (abs s') t q = lookup_producer inactive lifetime (abs s) t q.
Proof. exact isolation_lookup. Qed.
Print Assumptions C15_isolation_lookup.

(* ---- HTTP: a request that is not answered 200 by a handler changes nothing *)
Theorem C15_http_4xx : forall s m path q s' n,
  http_exec s m path q = (s', SCode n) -> (400 <= n < 500)%N -> s' = s.
Proof. exact http_4xx_changes_nothing. Qed.
Print Assumptions C15_http_4xx.

Theorem C15_http_not_200 : forall s m path q s' st,
  http_exec s m path q = (s', st) -> st <> SCode 200 -> s' = s.
Proof. exact http_not_200_changes_nothing. Qed.
Print Assumptions C15_http_not_200.

Theorem C15_http_readonly : forall s m path q s' st,
  http_exec s m path q = (s', st) -> s' <> s ->
  m = "POST"%string /\ In path ["/topic/create"; "/topic/delete"; "/channel/create"; "/channel/delete"; "/topic/tombstone"]%string.
Proof. exact http_readonly. Qed.
Print Assumptions C15_http_readonly.

(* ---- HTTP: the admin requests change nothing but what they name.  A create request -
   whatever it names, also a topic / channel that exists and has producers - leaves every
   (registration, producer, tombstone flag) entry of /debug, every node, every tombstone mark
   and every /lookup listing as it was and removes no key *)
Theorem C15_http_create_keeps_entries : forall s m path q s' st,
  path = "/topic/create"%string \/ path = "/channel/create"%string ->
  http_exec s m path q = (s', st) ->
  q_debug s' = q_debug s /\
  (g_now (abs s') = g_now (abs s) /\ g_nodes (abs s') = g_nodes (abs s) /\
   (forall k p, g_prod (abs s') k p = g_prod (abs s) k p) /\
   (forall t p, g_tomb (abs s') t p = g_tomb (abs s) t p) /\
   (forall k, g_key (abs s) k = true -> g_key (abs s') k = true)).
Proof. exact http_create_frame. Qed.
Print Assumptions C15_http_create_keeps_entries.

Theorem C15_http_create_keeps_lookup : forall s m path q s' st inactive lifetime t p,
  path = "/topic/create"%string \/ path = "/channel/create"%string ->
  http_exec s m path q = (s', st) ->
  lookup_producer inactive lifetime (abs s') t p = lookup_producer inactive lifetime (abs s) t p.
Proof. exact http_create_lookup. Qed.
Print Assumptions C15_http_create_keeps_lookup.

(* a delete request adds and alters nothing (no key, no entry, no mark); keys of another
   topic / other than the named channel key keep all their entries; marks of other topics stay *)
Theorem C15_http_delete_topic_frame : forall s m q s' st,
  http_exec s m "/topic/delete" q = (s', st) ->
  g_now (abs s') = g_now (abs s) /\ g_nodes (abs s') = g_nodes (abs s) /\
  (forall k, g_key (abs s') k = true -> g_key (abs s) k = true) /\
  (forall k p, g_prod (abs s') k p = true -> g_prod (abs s) k p = true) /\
  (forall u p, g_tomb (abs s') u p = None \/ g_tomb (abs s') u p = g_tomb (abs s) u p) /\
  (forall k, q_topic q <> Some (r_key k) ->
     g_key (abs s') k = g_key (abs s) k /\ forall p, g_prod (abs s') k p = g_prod (abs s) k p) /\
  (forall u p, q_topic q <> Some u -> g_tomb (abs s') u p = g_tomb (abs s) u p).
Proof. exact http_delete_topic_frame. Qed.
Print Assumptions C15_http_delete_topic_frame.

Theorem C15_http_delete_channel_frame : forall s m q s' st,
  http_exec s m "/channel/delete" q = (s', st) ->
  g_now (abs s') = g_now (abs s) /\ g_nodes (abs s') = g_nodes (abs s) /\
  (forall k, g_key (abs s') k = true -> g_key (abs s) k = true) /\
  (forall k p, g_prod (abs s') k p = true -> g_prod (abs s) k p = true) /\
  (forall u p, g_tomb (abs s') u p = None \/ g_tomb (abs s') u p = g_tomb (abs s) u p) /\
  (forall k, q_chan_key q <> Some k ->
     g_key (abs s') k = g_key (abs s) k /\ forall p, g_prod (abs s') k p = g_prod (abs s) k p) /\
  (forall u p, ~ False -> g_tomb (abs s') u p = g_tomb (abs s) u p).
Proof. exact http_delete_channel_frame. Qed.
Print Assumptions C15_http_delete_channel_frame.

(* a tombstone request keeps every key and every entry; it sets a mark only for a producer
   of the named topic whose broadcast_address:http_port is the named node *)
Theorem C15_http_tombstone_frame : forall s m q s' st,
  http_exec s m "/topic/tombstone" q = (s', st) ->
  g_now (abs s') = g_now (abs s) /\ g_nodes (abs s') = g_nodes (abs s) /\
  (forall k, g_key (abs s') k = g_key (abs s) k) /\
  (forall k p, g_prod (abs s') k p = g_prod (abs s) k p) /\
  (forall u p, g_tomb (abs s') u p = g_tomb (abs s) u p \/
               (q_topic q = Some u /\ registered (abs s) p u = true /\
                exists node, q_node q = Some node /\ g_node_matches (abs s) node p = true /\
                             g_tomb (abs s') u p = Some (g_now (abs s)))).
Proof. exact http_tombstone_frame. Qed.
Print Assumptions C15_http_tombstone_frame.

(* ---- invalid names are refused: the registry never holds one.  [names_ok]: every key of the
   registration map carries names that pass the name rule (1..64 bytes IN TOTAL, the optional
   "#ephemeral" included).  It holds initially and is kept by every well-behaved command, every
   byte stream on a connection and every HTTP request; the views of such a state - /topics,
   /channels of any topic, the channels of /lookup, the keys of /debug - list valid names only *)
Theorem C15_names_invariant :
  names_ok init = true /\
  (forall s o, names_ok s = true -> names_ok (fst (step s o)) = true) /\
  (forall decode s p input s' fs, names_ok s = true -> exec_conn decode s p input = Done s' fs -> names_ok s' = true) /\
  (forall s m path q s' st, names_ok s = true -> http_exec s m path q = (s', st) -> names_ok s' = true).
Proof. exact (conj names_ok_init (conj names_ok_step (conj names_ok_conn names_ok_http))). Qed.
Print Assumptions C15_names_invariant.

Theorem C15_views_list_valid_names : forall s, names_ok s = true ->
  (forall t, In t (q_topics s) -> is_valid_name t = true) /\
  (forall t c, In c (q_channels s t) -> is_valid_name c = true) /\
  (forall inactive lifetime t chs ps c,
     q_lookup inactive lifetime s t = Some (chs, ps) -> In c chs -> is_valid_name c = true) /\
  (forall k p b, In (k, p, b) (q_debug s) -> key_ok k = true).
Proof. exact views_list_valid_names. Qed.
Print Assumptions C15_views_list_valid_names.

(* over HTTP an invalid name gets 400 from every route that takes one and nothing changes *)
Theorem C15_http_invalid_topic_refused : forall s path t c n,
  In path ["/topic/create"; "/topic/delete"; "/channel/create"; "/channel/delete"; "/topic/tombstone"]%string ->
  is_valid_name t = false ->
  http_exec s "POST" path (QArgs (Some t) c n) = (s, SCode 400).
Proof. exact http_invalid_topic_refused. Qed.
Print Assumptions C15_http_invalid_topic_refused.

Theorem C15_http_invalid_channel_refused : forall s path t c n,
  In path ["/channel/create"; "/channel/delete"]%string ->
  is_valid_name c = false ->
  http_exec s "POST" path (QArgs (Some t) (Some c) n) = (s, SCode 400).
Proof. exact http_invalid_channel_refused. Qed.
Print Assumptions C15_http_invalid_channel_refused.

(* the length limit counts the suffix: 54 + 10 is the longest ephemeral name *)
Example C15_name_length_witness :
  is_valid_name (xs 54 ++ ephemeral_suffix) = true /\ is_valid_name (xs 55 ++ ephemeral_suffix) = false /\
  is_valid_name (xs 64 ++ ephemeral_suffix) = false /\ is_valid_name (xs 64) = true /\ is_valid_name (xs 65) = false /\
  is_valid_name ephemeral_suffix = false.
Proof. exact long_ephemeral_names_invalid. Qed.

(* ---- non-vacuity: concrete streams *)
Definition s_by : state :=
  run init [Identify 0%N (mkInfo [98]%N 4150%Z 4151%Z [49]%N); Register 0%N [98; 121]%N [99]%N].
Definition good_body : bytes := [123; 125]%N.
Definition dec (b : bytes) : jres :=
  if bytes_eqb b good_body then Json (mkInfo [104]%N 1%Z 2%Z [118]%N) else BadJSON.
Definition ident_ok : bytes := (w_IDENTIFY ++ [10; 0; 0; 0; 2]%N ++ good_body)%list.
Definition line (s : string) : bytes := (bytes_of_string s ++ [10]%N)%list.

Example C15_witness :
  wf s_by /\
  (* the F2 witness now gets E_BAD_BODY and the daemon lives *)
  exec_conn dec s_by 1%N f2_witness = Done s_by [FErr E_BAD_BODY] /\
  (* a hostile producer that identifies, registers on the bystander's topic, then sends an
     invalid name: refused, and everything it registered is gone *)
  exec_conn dec s_by 1%N (magic_v1 ++ ident_ok ++ line "REGISTER by c" ++ line "UNREGISTER by" ++ line "REGISTER by" ++ line "REGISTER bad$ c")%list
    = Done s_by [FIdentified; FOk; FOk; FOk; FErr E_BAD_TOPIC] /\
  (* white space handling of strings.TrimSpace, a command before IDENTIFY *)
  exec_conn dec s_by 1%N (magic_v1 ++ [194; 160; 9]%N ++ line "PING  " ++ line "REGISTER t")%list
    = Done s_by [FOk; FErr E_INVALID] /\
  http_exec s_by "POST" "/topic/delete" (QArgs None None None) = (s_by, SCode 400) /\
  http_exec s_by "GET" "/topic/delete" (QArgs (Some [98; 121]%N) None None) = (s_by, SCode 405) /\
  fst (http_exec s_by "POST" "/topic/delete" (QArgs (Some [98; 121]%N) None None)) <> s_by.
Proof. split; [apply wf_run, wf_init|]. vm_compute. repeat split; try reflexivity. discriminate. Qed.

(* the bystander's state satisfies the names invariant, has keys, and a hostile producer that
   offers a 65-byte ephemeral name (55 + "#ephemeral") as topic / as channel is refused *)
Example C15_names_witness :
  names_ok s_by = true /\ q_topics s_by = [[98; 121]%N] /\
  exec_conn dec s_by 1%N (magic_v1 ++ ident_ok ++ bytes_of_string "REGISTER " ++ xs 55 ++ ephemeral_suffix ++ line " c")%list
    = Done s_by [FIdentified; FErr E_BAD_TOPIC] /\
  exec_conn dec s_by 1%N (magic_v1 ++ ident_ok ++ bytes_of_string "UNREGISTER by " ++ xs 64 ++ ephemeral_suffix ++ [10%N])%list
    = Done s_by [FIdentified; FErr E_BAD_CHANNEL] /\
  (exists s1, exec_conn dec s_by 1%N (magic_v1 ++ ident_ok ++ bytes_of_string "REGISTER " ++ xs 54 ++ ephemeral_suffix ++ line " c")%list
    = Done s1 [FIdentified; FOk] /\ In (xs 54 ++ ephemeral_suffix)%list (q_topics s1)).
Proof.
  vm_compute. repeat split; try reflexivity. eexists. split; [reflexivity|]. right. left. reflexivity.
Qed.

(* the admin requests on a topic that is registered: create is answered 200 and the
   producer's entries are all still there; tombstone of its node sets the mark; delete
   removes the entries *)
Example C15_http_frame_witness :
  q_debug s_by <> [] /\
  (exists s1, http_exec s_by "POST" "/topic/create" (QArgs (Some [98; 121]%N) None None) = (s1, SCode 200)
              /\ q_debug s1 = q_debug s_by) /\
  (exists s1, http_exec s_by "POST" "/channel/create" (QArgs (Some [98; 121]%N) (Some [99]%N) None) = (s1, SCode 200)
              /\ q_debug s1 = q_debug s_by) /\
  (exists s1, http_exec s_by "POST" "/channel/create" (QArgs (Some [98; 121]%N) (Some [110]%N) None) = (s1, SCode 200)
              /\ q_debug s1 = q_debug s_by /\ s1 <> s_by) /\
  g_tomb (abs (fst (http_exec s_by "POST" "/topic/tombstone" (QArgs (Some [98; 121]%N) None (Some [98; 58; 52; 49; 53; 49]%N)))))
         [98; 121]%N 0%N = Some 0%Z /\
  g_tomb (abs s_by) [98; 121]%N 0%N = None /\
  g_prod (abs s_by) (topic_key [98; 121]%N) 0%N = true /\
  g_prod (abs (fst (http_exec s_by "POST" "/topic/delete" (QArgs (Some [98; 121]%N) None None)))) (topic_key [98; 121]%N) 0%N = false.
Proof.
  vm_compute. repeat split; try reflexivity; try discriminate;
    eexists; (split; [reflexivity|]); try (split; [reflexivity|discriminate]); reflexivity.
Qed.
