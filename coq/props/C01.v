(* C01 — at-least-once delivery: no acknowledged message is lost.  Property theorems only. *)
From Coq Require Import List NArith ZArith.
From NSQV Require Import model.Core proofs.CoreBase proofs.CoreOwes proofs.CoreFlow proofs.CoreLive.
Import ListNotations.
Open Scope N_scope.

(* SAFETY.  Take any state in which the durable channel (t,c) exists, publish a batch
   containing message x to topic t (PUB / MPUB / DPUB, TCP or HTTP), then let ANY history
   follow — more publishes, any consumers subscribing, changing RDY, receiving, FIN, REQ
   with any delay, TOUCH, timing out, disconnecting with messages in flight, pause/unpause,
   channel creation, emptying THIS or other channels, deleting OTHER channels/topics —
   short of deleting channel (t,c) or topic t or emptying topic t's own queue.  Then x is
   still in the topic's queue or accounted for on the channel: queued, in flight,
   deferred, finished, or discarded by an explicit empty of that channel. *)
Theorem C01_no_loss : forall cfg t c x s teph ids bytes defer now ops,
  channel_exists t c s -> In x ids -> forallb (keeps t c) ops = true ->
  J t c x (run cfg (fst (step cfg s (OPub t teph ids bytes defer now))) ops).
Proof. exact no_loss. Qed.
Print Assumptions C01_no_loss.

Theorem C01_no_loss_meaning : forall t c x s, J t c x s ->
  exists tp ch, In tp (s_topics s) /\ t_id tp = t /\ In ch (t_chans tp) /\ c_id ch = c /\ c_eph ch = false /\
    (In x (map m_id (t_queue tp)) \/ In x (seen ch)).
Proof. exact J_meaning. Qed.
Print Assumptions C01_no_loss_meaning.

(* one-step form: every operation other than the three excluded ones preserves it *)
Theorem C01_step : forall cfg t c x s o, keeps t c o = true -> J t c x s -> J t c x (fst (step cfg s o)).
Proof. exact step_J. Qed.
Print Assumptions C01_step.

(* LIVENESS as enabledness ("keeps being redelivered"): wherever the unfinished message
   sits, the steps that bring it back to a consumer are enabled.
   (a) in flight, holder silent or gone: once its deadline has passed, the scan re-queues it *)
Theorem C01_timeout_requeues : forall cfg now ch e,
  c_eph ch = false -> In e (c_ifl ch) -> (i_deadline e <= now)%Z ->
  In (m_id (i_msg e)) (map m_id (c_queue (ch_scan_ifl cfg now ch))).
Proof. exact timeout_requeues. Qed.
Print Assumptions C01_timeout_requeues.

(* (b) deferred (REQ with delay, DPUB): once its release time has passed, the scan re-queues it *)
Theorem C01_deferred_requeues : forall cfg now ch e,
  c_eph ch = false -> In e (c_dfr ch) -> (d_release e <= now)%Z ->
  In (m_id (d_msg e)) (map m_id (c_queue (ch_scan_dfr cfg now ch))).
Proof. exact deferred_requeues. Qed.
Print Assumptions C01_deferred_requeues.

(* (c) queued: delivery to any live subscribed consumer with RDY room on the un-paused
   channel is enabled, and carries attempts + 1 *)
Theorem C01_queued_deliverable : forall cfg s k kl t c ch id m q' now,
  find_client s k = Some kl -> k_sub kl = Some (t, c) -> get_chan s t c = Some ch ->
  k_alive kl = true -> c_paused ch = false -> (0 < k_rdy kl)%Z -> (k_ifl kl < k_rdy kl)%Z ->
  In k (c_clients ch) -> remove_msg id (c_queue ch) = Some (m, q') ->
  snd (step cfg s (ODeliver k id now)) = RDelivered (m_att (bump m)).
Proof. exact resume_enabled. Qed.
Print Assumptions C01_queued_deliverable.

(* (a)+(b) composed over operations, from ANY state: wherever an unfinished message of a
   durable channel sits — queued, in flight (its holder silent or gone), deferred — the two
   scans, once their clock has reached the channel's horizon (its latest deadline / release
   time), leave it in the channel's queue, where (c) applies *)
Theorem C01_back_to_queue : forall cfg s t c ch x,
  get_chan s t c = Some ch -> c_eph ch = false -> In x (live_ids ch) ->
  let now := horizon ch in
  exists ch', get_chan (run cfg s [OScanInFlight t c now; OScanDeferred t c now]) t c = Some ch'
              /\ In x (map m_id (c_queue ch')).
Proof. exact back_to_queue. Qed.
Print Assumptions C01_back_to_queue.

Example C01_back_to_queue_witness :
  let cfg := mkCfg 5 900000000000%Z in
  let s := run cfg init [OCreateTopic 1 false; OCreateChan 1 1 false false 0%Z; OConnect 7 5000%Z;
                         OSub 7 1 1 false false 1%Z; ORdy 7 2%Z; OPub 1 false [10;11] 20 0%Z 1%Z;
                         ODeliver 7 10 2%Z; ODeliver 7 11 2%Z; OReq 7 11 30000%Z 3%Z; ODisconnect 7] in
  match get_chan s 1 1 with
  | Some ch => (live_ids ch, map m_id (c_queue ch), horizon ch) = ([10; 11], [], 30003%Z)
  | None => False
  end.
Proof. vm_compute. reflexivity. Qed.

(* non-vacuity: disk overflow + requeue + timeout + disconnect with a message in flight
   + a channel created between publish and pump; message 11 is still accounted for *)
Example C01_witness :
  let cfg := mkCfg 1 900000000000%Z in
  let s0 := run cfg init [OCreateTopic 1 false; OCreateChan 1 1 false false 0%Z] in
  let ops := [OConnect 7 5000000000%Z; OSub 7 1 1 false false 1%Z; ORdy 7 3%Z;
              ODeliver 7 11 2%Z; OReq 7 11 30000000000%Z 3%Z; OPauseTopic 1 true 4%Z;
              OCreateChan 1 2 false false 5%Z; OScanDeferred 1 1 99999999999999%Z;
              ODeliver 7 11 6%Z; ODisconnect 7; OScanInFlight 1 1 99999999999999%Z] in
  channel_exists 1 1 s0 /\ forallb (keeps 1 1) ops = true /\
  let s := run cfg (fst (step cfg s0 (OPub 1 false [10;11;12] 30 0%Z 1%Z))) ops in
  map (fun tp => map (fun ch => (map m_id (c_queue ch), map (fun m => m_att m) (c_queue ch))) (t_chans tp)) (s_topics s)
  = [[([10;12;11], [0;0;2]); ([], [])]].
Proof. split; [|split]; [| reflexivity | vm_compute; reflexivity].
  unfold channel_exists. vm_compute. apply Exists_cons_hd. unfold T0. cbn. repeat split.
  apply Exists_cons_hd. split; reflexivity.
Qed.

(* Schedules, not only histories: the publish / graceful-close race (F20).  For ANY number of
   publishers in progress and ANY interleaving of their steps with Topic.exit's - lock, flag
   and flush statements as the CURRENT source has them (proofs/HandoffSrc.v) - no publish is
   acknowledged without being among what the close writes to disk. *)
From NSQV Require model.Handoff proofs.HandoffProofs proofs.HandoffSrc proofs.HandoffCompose.
Theorem C01_publish_vs_close_every_schedule : forall ks sched,
  forallb HandoffProofs.locked ks = true -> forall m,
  let st := Handoff.run (Handoff.init ks HandoffCompose.src_topic_close) sched in
  In m (Handoff.movers st) -> Handoff.lost st m = false /\ Handoff.missed st = false.
Proof. exact HandoffCompose.topic_close_loses_no_publish. Qed.
Print Assumptions C01_publish_vs_close_every_schedule.

Theorem C01_publishers_follow_the_protocol :
  HandoffSrc.topic_mover CoreShape.shape_Topic_PutMessage = true /\ HandoffSrc.topic_mover CoreShape.shape_Topic_PutMessages = true.
Proof. exact HandoffSrc.src_topic_publishers_locked. Qed.
Print Assumptions C01_publishers_follow_the_protocol.

(* the statement is not vacuous and not trivially true: with the read lock (the source before
   56cbfc9) one publisher and this schedule lose an acknowledged message *)
Theorem C01_read_lock_close_refuted :
  exists sched m, In m (Handoff.movers (Handoff.run (Handoff.init [Handoff.Publish] (Handoff.topic_exit_prog Handoff.RMode)) sched))
                  /\ Handoff.lost (Handoff.run (Handoff.init [Handoff.Publish] (Handoff.topic_exit_prog Handoff.RMode)) sched) m = true.
Proof. exact HandoffProofs.read_lock_closer_refuted. Qed.
Print Assumptions C01_read_lock_close_refuted.

(* The model is tied to the CURRENT source: the order-of-effects facts about nsqd's core
   functions that the model assumes (proofs/CoreSrcDefs.v) hold of the statement skeletons
   regenerated from /repo on this run (gen/CoreShape.v). *)
From NSQV Require proofs.CoreSrcDefs proofs.CoreSrcC01.
Theorem C01_source_shape : CoreSrcDefs.src_facts_C01.
Proof. exact CoreSrcC01.src_C01. Qed.
Print Assumptions C01_source_shape.
