(* C10 — nsqd HTTP API: validation, status codes and equivalence with TCP publish.
   Property theorems only (proofs in proofs/HttpProofs.v; model in model/Http.v). *)
From Coq Require Import String List NArith ZArith Bool.
From NSQV Require Import model.Judge model.Names model.Num model.Http gen.NsqdRoutes proofs.HttpProofs proofs.HttpArgProofs.
Import ListNotations.
Close Scope string_scope.
Open Scope Z_scope.

(* ---------------------------------------------------------------- the tie to the source *)
(* the model's route table IS newHTTPServer's (regenerated from nsqd/http.go on every run) *)
Theorem C10_route_table : model_route_table = nsqd_routes.
Proof. exact route_table_matches_source. Qed.
Print Assumptions C10_route_table.

Theorem C10_router_settings :
  nsqd_router_settings =
  [("HandleMethodNotAllowed", "true"); ("PanicHandler", "http_api.LogPanicHandler");
   ("NotFound", "http_api.LogNotFoundHandler");
   ("MethodNotAllowed", "http_api.LogMethodNotAllowedHandler")]%string.
Proof. exact router_settings_expected. Qed.
Print Assumptions C10_router_settings.

(* every http_api.Err{code, token} literal of nsqd/http.go is the one the model answers;
   the only 5xx literals are the healthy-backend exclusions named in C10_no_500 *)
Theorem C10_err_literals : nsqd_http_errs = expected_err_literals.
Proof. exact err_literals_expected. Qed.
Print Assumptions C10_err_literals.
Theorem C10_source_5xx_are_the_exclusions :
  filter (fun e => 500 <=? snd (fst e)) nsqd_http_errs = excluded_5xx.
Proof. exact source_5xx_literals_are_the_exclusions. Qed.
Print Assumptions C10_source_5xx_are_the_exclusions.
(* the call order inside every handler (see proofs/HttpProofs.v http_calls_expected) *)
Theorem C10_handler_call_order : nsqd_http_calls = expected_http_calls.
Proof. exact http_calls_expected. Qed.
Print Assumptions C10_handler_call_order.
Theorem C10_bool_params :
  nsqd_bool_params = [("true", true); ("1", true); ("false", false); ("0", false)]%string.
Proof. exact bool_params_expected. Qed.
Print Assumptions C10_bool_params.
Theorem C10_arg_errs :
  http_api_arg_errs = ["MISSING_ARG_TOPIC"; "INVALID_ARG_TOPIC"; "MISSING_ARG_CHANNEL"; "INVALID_ARG_CHANNEL"]%string.
Proof. exact arg_errs_expected. Qed.
Print Assumptions C10_arg_errs.

(* ---------------------------------------------------------------- C10_no_500 *)
(* For EVERY request - any method, any path, any query (parsable or not), any body,
   declared or chunked, complete or ending in a read error - against EVERY daemon state,
   given a healthy backend (stated: /ping's disk-failure 500, /info's os.Hostname error,
   the 503 while exiting and a failing diskqueue Empty are excluded by [healthy_env]):
   the status is one of 200 301 307 400 403 404 405 413, it is not 500, and status and
   error token obey the documented table ([status_rule]: MISSING_ARG_* / INVALID_* /
   MSG_EMPTY -> 400, *NOT_FOUND -> 404, *_TOO_BIG / BAD_BODY / BAD_MESSAGE -> 413,
   METHOD_NOT_ALLOWED -> 405, TLS_REQUIRED -> 403).  Only requests dispatched to
   net/http/pprof (stdlib passthrough) are outside the statement. *)
Theorem C10_no_500 : forall c st r, healthy_env c ->
  match fst (serve c st r) with
  | Resp s tok => allowed_status s = true /\ s <> 500 /\ status_rule s tok = true
  | Pass => exists rt, route_request (r_method r) (r_path r) = RHandle rt /\ rt_handler rt = HPprof
  end.
Proof. exact no_500. Qed.
Print Assumptions C10_no_500.

(* the table, condition by condition *)
Theorem C10_missing_topic_400 : forall c st r p ps,
  tls_gate c = false -> In p topic_taking_paths -> r_method r = MPost -> r_path r = str p ->
  r_query r = QOk ps -> r_body_err r = false -> qget k_topic ps = None ->
  serve c st r = (Resp 400 (str "MISSING_ARG_TOPIC"), []).
Proof. exact missing_topic_400. Qed.
Print Assumptions C10_missing_topic_400.

Theorem C10_unknown_topic_404 : forall c st r p ps t ch,
  tls_gate c = false -> In p existing_topic_paths -> r_method r = MPost -> r_path r = str p ->
  r_query r = QOk ps -> r_body_err r = false ->
  qget k_topic ps = Some t -> is_valid_name t = true ->
  qget k_channel ps = Some ch -> is_valid_name ch = true ->
  topic_exists st t = false ->
  serve c st r = (Resp 404 (str "TOPIC_NOT_FOUND"), []).
Proof. exact unknown_topic_404. Qed.
Print Assumptions C10_unknown_topic_404.

Theorem C10_unknown_channel_404 : forall c st r p ps t ch,
  tls_gate c = false -> In p existing_channel_paths -> r_method r = MPost -> r_path r = str p ->
  r_query r = QOk ps -> r_body_err r = false ->
  qget k_topic ps = Some t -> is_valid_name t = true ->
  qget k_channel ps = Some ch -> is_valid_name ch = true ->
  topic_exists st t = true -> chan_exists st t ch = false ->
  serve c st r = (Resp 404 (str "CHANNEL_NOT_FOUND"), []).
Proof. exact unknown_channel_404. Qed.
Print Assumptions C10_unknown_channel_404.

Theorem C10_pub_oversize_413 : forall c st r body,
  tls_gate c = false -> 0 <= max_msg c -> r_method r = MPost -> r_path r = str "/pub" ->
  complete_body r body -> max_msg c < blen body ->
  serve c st r = (Resp 413 (str "MSG_TOO_BIG"), []).
Proof. exact pub_oversize_413. Qed.
Print Assumptions C10_pub_oversize_413.

Theorem C10_mpub_declared_oversize_413 : forall c st r n,
  tls_gate c = false -> r_method r = MPost -> r_path r = str "/mpub" ->
  r_framing r = Declared n -> max_body c < n ->
  serve c st r = (Resp 413 (str "BODY_TOO_BIG"), []).
Proof. exact mpub_declared_oversize_413. Qed.
Print Assumptions C10_mpub_declared_oversize_413.

Theorem C10_mpub_text_oversize_413 : forall c st r ps name body,
  tls_gate c = false -> 0 <= max_msg c -> 0 <= max_body c ->
  r_method r = MPost -> r_path r = str "/mpub" -> r_query r = QOk ps -> complete_body r body ->
  qget k_topic ps = Some name -> is_valid_name name = true -> binary_mode ps = false ->
  max_body c < blen body ->
  exists tok effs, serve c st r = (Resp 413 tok, effs) /\ (forall t b d, ~ In (EEnqueue t b d) effs).
Proof. exact mpub_text_oversize_413. Qed.
Print Assumptions C10_mpub_text_oversize_413.

Theorem C10_pub_empty_400 : forall c st r,
  tls_gate c = false -> 0 <= max_msg c -> r_method r = MPost -> r_path r = str "/pub" ->
  complete_body r [] -> serve c st r = (Resp 400 (str "MSG_EMPTY"), []).
Proof. exact pub_empty_400. Qed.
Print Assumptions C10_pub_empty_400.

Theorem C10_pub_bad_defer_400 : forall c st r ps name ds body,
  tls_gate c = false -> 0 <= max_msg c -> 0 <= max_req c < max_i64 ->
  r_method r = MPost -> r_path r = str "/pub" -> r_query r = QOk ps -> complete_body r body ->
  1 <= blen body <= max_msg c ->
  qget k_topic ps = Some name -> is_valid_name name = true -> qget k_defer ps = Some ds ->
  (match parse_int ds with
   | None => True
   | Some di => di < 0 \/ max_req c < di * ns_per_ms
   end) ->
  serve c st r = (Resp 400 (str "INVALID_DEFER"), [ECreateTopic name]).
Proof. exact pub_bad_defer_400. Qed.
Print Assumptions C10_pub_bad_defer_400.

(* the table read the other way round - "400 for bad or missing arguments, 404 for an unknown
   topic/channel" AND ONLY for those: whatever error token is answered, to any request in
   any state, is true of that request ([token_justified]: INVALID_TOPIC / INVALID_ARG_TOPIC
   / INVALID_ARG_CHANNEL => the argument is present and is not a valid name (1..64 bytes
   incl. an optional #ephemeral); MISSING_ARG_* => absent; TOPIC_/CHANNEL_NOT_FOUND => not
   in the state; INVALID_DEFER => not a number of ms in [0, max-req-timeout];
   INVALID_REQUEST => unparsable query or unreadable body; INVALID_OPTION / INVALID_VALUE =>
   an option /config does not know or can not set, an empty / oversize / unacceptable value;
   "invalid block rate" => rate is not a number), and any other token is one of the API's
   (closed world, [other_tokens]) *)
Theorem C10_error_tokens_justified : forall c st r, 0 <= max_msg c -> 0 <= max_req c < max_i64 ->
  match fst (serve c st r) with
  | Resp s tok => token_justified c st r tok = true
  | Pass => True
  end.
Proof. exact error_tokens_justified. Qed.
Print Assumptions C10_error_tokens_justified.

(* in particular a valid name - at every length from 1 to 64 - is never refused as invalid or missing *)
Theorem C10_valid_names_not_refused : forall c st r ps t s tok,
  0 <= max_msg c -> 0 <= max_req c < max_i64 -> r_query r = QOk ps -> qget k_topic ps = Some t -> is_valid_name t = true ->
  fst (serve c st r) = Resp s tok ->
  tok <> str "INVALID_TOPIC" /\ tok <> str "INVALID_ARG_TOPIC" /\ tok <> str "MISSING_ARG_TOPIC" /\
  (forall ch, qget k_channel ps = Some ch -> is_valid_name ch = true ->
     tok <> str "INVALID_ARG_CHANNEL" /\ tok <> str "MISSING_ARG_CHANNEL").
Proof. exact valid_names_not_refused. Qed.
Print Assumptions C10_valid_names_not_refused.

(* the ten admin endpoints: a well-formed POST is answered 200 EXACTLY when the documented
   precondition holds of its (first) topic / channel argument *)
Theorem C10_admin_precondition : forall c st r p op ps,
  tls_gate c = false -> healthy_env c -> In (p, op) admin_paths ->
  r_method r = MPost -> r_path r = str p -> r_query r = QOk ps -> r_body_err r = false ->
  exists b : bool, admin_precondition (str p) st (qget k_topic ps) (qget k_channel ps) = Some b /\
    exists s tok, fst (serve c st r) = Resp s tok /\ (s = 200 <-> b = true).
Proof. exact admin_precondition_exact. Qed.
Print Assumptions C10_admin_precondition.

(* a /pub within every documented limit (valid topic, 1..max-msg-size bytes, no or an
   in-range defer) is accepted and enqueues exactly its body *)
Theorem C10_pub_valid_accepted : forall c st r ps name body,
  tls_gate c = false -> env_exiting c = false -> 0 <= max_msg c -> 0 <= max_req c < max_i64 ->
  r_method r = MPost -> r_path r = str "/pub" -> r_query r = QOk ps -> complete_body r body ->
  1 <= blen body <= max_msg c -> qget k_topic ps = Some name -> is_valid_name name = true ->
  match qget k_defer ps with Some ds => defer_documented c ds = true | None => True end ->
  exists d, serve c st r = (Resp 200 OKb, [ECreateTopic name; EEnqueue name [body] d]).
Proof. exact pub_valid_accepted. Qed.
Print Assumptions C10_pub_valid_accepted.

Theorem C10_wrong_method_405 : forall m p, In p static_paths -> find_route m p = None ->
  match route_request m p with
  | RMethodNotAllowed => m <> MOptions
  | ROptionsOk => m = MOptions
  | RRedirect _ => True
  | _ => False
  end.
Proof. exact wrong_method_405. Qed.
Print Assumptions C10_wrong_method_405.

(* ---------------------------------------------------------------- C10_pub_equiv *)
(* POST /pub?topic=T, body B (Content-Length or chunked) is accepted iff TCP "PUB T" with
   B is, and then both have exactly the same effects (create T if absent; enqueue B) *)
Theorem C10_pub_equiv : forall c st r ps name body effs,
  tls_gate c = false -> 0 <= max_msg c ->
  r_method r = MPost -> r_path r = str "/pub" -> r_query r = QOk ps -> complete_body r body ->
  qget k_topic ps = Some name -> qget k_defer ps = None ->
  (serve c st r = (Resp 200 OKb, effs) <-> tcp_pub c name (blen body) body = TcpOk effs).
Proof. exact pub_equiv. Qed.
Print Assumptions C10_pub_equiv.

(* ... with &defer=D == "DPUB T D" for EVERY string of decimal digits D, of any length
   (the F1 region: values past 2^63 and 2^64 are refused by both) and the same Duration *)
Theorem C10_dpub_equiv : forall c st r ps name ds body effs,
  tls_gate c = false -> 0 <= max_msg c -> 0 <= max_req c < max_i64 ->
  r_method r = MPost -> r_path r = str "/pub" -> r_query r = QOk ps -> complete_body r body ->
  qget k_topic ps = Some name -> qget k_defer ps = Some ds -> ds <> [] -> all_digits ds = true ->
  (serve c st r = (Resp 200 OKb, effs) <-> tcp_dpub c name ds (blen body) body = TcpOk effs).
Proof. exact dpub_equiv. Qed.
Print Assumptions C10_dpub_equiv.

(* binary /mpub with a Content-Length == "MPUB T" with that size field, on ANY payload
   (arbitrary count and size fields, truncated, with trailing bytes) *)
Theorem C10_mpub_binary_equiv_declared : forall c st r ps name payload effs,
  tls_gate c = false -> 0 <= max_body c ->
  r_method r = MPost -> r_path r = str "/mpub" -> r_query r = QOk ps ->
  qget k_topic ps = Some name -> binary_mode ps = true ->
  r_body r = payload -> r_framing r = Declared (blen payload) ->
  (serve c st r = (Resp 200 OKb, effs) <-> tcp_mpub c name (blen payload) payload = TcpOk effs).
Proof. exact mpub_binary_equiv_declared. Qed.
Print Assumptions C10_mpub_binary_equiv_declared.

(* chunked: the daemon reads at most max-body-size bytes, i.e. it is the MPUB of that prefix;
   within the limit it is the MPUB of the payload itself *)
Theorem C10_mpub_binary_equiv_chunked : forall c st r ps name payload effs,
  tls_gate c = false -> 0 < max_body c ->
  r_method r = MPost -> r_path r = str "/mpub" -> r_query r = QOk ps ->
  qget k_topic ps = Some name -> binary_mode ps = true ->
  r_body r = payload -> r_framing r = Chunked ->
  (serve c st r = (Resp 200 OKb, effs) <->
   tcp_mpub c name (Z.min (blen payload) (max_body c)) payload = TcpOk effs).
Proof. exact mpub_binary_equiv_chunked. Qed.
Print Assumptions C10_mpub_binary_equiv_chunked.

Theorem C10_mpub_binary_equiv_chunked_within : forall c st r ps name payload effs,
  tls_gate c = false -> 0 < max_body c -> blen payload <= max_body c ->
  r_method r = MPost -> r_path r = str "/mpub" -> r_query r = QOk ps ->
  qget k_topic ps = Some name -> binary_mode ps = true ->
  r_body r = payload -> r_framing r = Chunked ->
  (serve c st r = (Resp 200 OKb, effs) <-> tcp_mpub c name (blen payload) payload = TcpOk effs).
Proof. exact mpub_binary_equiv_chunked_within. Qed.
Print Assumptions C10_mpub_binary_equiv_chunked_within.

(* whatever is enqueued by a binary /mpub, declared or chunked, fits BOTH limits (F11) *)
Theorem C10_mpub_binary_limits : forall c st r ps name msgs d,
  tls_gate c = false -> 0 <= max_body c ->
  r_method r = MPost -> r_path r = str "/mpub" -> r_query r = QOk ps ->
  qget k_topic ps = Some name -> binary_mode ps = true ->
  In (EEnqueue name msgs d) (snd (serve c st r)) ->
  4 + framed_size msgs <= max_body c /\ Forall (fun m => 1 <= blen m <= max_msg c) msgs.
Proof. exact mpub_binary_body_limit. Qed.
Print Assumptions C10_mpub_binary_limits.

(* text /mpub: the exact rule.  Accepted iff the WHOLE body fits max-body-size and EVERY
   non-empty line fits max-msg-size (one oversize line refuses the whole request, as one
   oversize message refuses a whole MPUB); the batch is the non-empty lines, in order. *)
Theorem C10_mpub_text_accept : forall c st r ps name body effs,
  tls_gate c = false -> 0 <= max_msg c -> 0 <= max_body c ->
  r_method r = MPost -> r_path r = str "/mpub" -> r_query r = QOk ps -> complete_body r body ->
  qget k_topic ps = Some name -> binary_mode ps = false ->
  (serve c st r = (Resp 200 OKb, effs) <->
   (is_valid_name name = true /\ env_exiting c = false /\ blen body <= max_body c /\
    forallb (msg_ok (max_msg c)) (text_msgs body) = true /\
    effs = [ECreateTopic name; EEnqueue name (text_msgs body) 0])).
Proof. exact mpub_text_accept. Qed.
Print Assumptions C10_mpub_text_accept.

(* ... == MPUB of the non-empty lines wherever both framings fit their own body limit *)
Theorem C10_mpub_text_equiv : forall c st r ps name body effs,
  tls_gate c = false -> 0 <= max_msg c < two31 -> 0 <= max_body c < two31 ->
  r_method r = MPost -> r_path r = str "/mpub" -> r_query r = QOk ps -> complete_body r body ->
  qget k_topic ps = Some name -> binary_mode ps = false ->
  blen body <= max_body c -> tcp_framing_fits c (text_msgs body) ->
  (serve c st r = (Resp 200 OKb, effs) <->
   tcp_mpub c name (blen (mpub_frame (text_msgs body))) (mpub_frame (text_msgs body)) = TcpOk effs).
Proof. exact mpub_text_equiv. Qed.
Print Assumptions C10_mpub_text_equiv.

(* the documented asymmetries outside that region (each measures ITS OWN body) *)
Theorem C10_text_gap_empty_batch :
  serve cfg_small [] (text_req [10%N; 10%N]) = (Resp 200 OKb, [ECreateTopic (str "t"); EEnqueue (str "t") [] 0]) /\
  tcp_mpub cfg_small (str "t") 4 (mpub_frame []) = TcpErr E_BAD_BODY [ECreateTopic (str "t")].
Proof. exact text_mpub_gap_empty_batch. Qed.
Print Assumptions C10_text_gap_empty_batch.
Theorem C10_text_gap_count :
  fst (serve cfg_small [] (text_req (lines_of 100))) = Resp 200 OKb /\
  tcp_mpub cfg_small (str "t") (blen (mpub_frame (text_msgs (lines_of 100)))) (mpub_frame (text_msgs (lines_of 100)))
    = TcpErr E_BAD_BODY [ECreateTopic (str "t")].
Proof. exact text_mpub_gap_count. Qed.
Print Assumptions C10_text_gap_count.
Theorem C10_text_gap_blank_lines :
  let body := (repeat 10%N 320 ++ [97%N])%list in
  fst (serve cfg_small [] (text_req body)) = Resp 413 (str "BODY_TOO_BIG") /\
  tcp_mpub cfg_small (str "t") (blen (mpub_frame (text_msgs body))) (mpub_frame (text_msgs body))
    = TcpOk [ECreateTopic (str "t"); EEnqueue (str "t") [[97%N]] 0].
Proof. exact text_mpub_gap_blank_lines. Qed.
Print Assumptions C10_text_gap_blank_lines.

(* ---------------------------------------------------------------- C10_admin_effect *)
(* each of the ten create / delete / empty / pause / unpause endpoints: a 200 means exactly
   the stated effect on exactly the named object (which had to exist where the endpoint
   requires it); any other answer means no effect at all *)
Theorem C10_admin_effect : forall c st r p op s tok effs,
  tls_gate c = false -> healthy_env c -> In (p, op) admin_paths ->
  r_method r = MPost -> r_path r = str p ->
  serve c st r = (Resp s tok, effs) ->
  (s = 200 -> exists ps t, r_query r = QOk ps /\ qget k_topic ps = Some t /\
              effs = op_effects op t (chan_arg ps) /\ op_accepts op st t (chan_arg ps)) /\
  (s <> 200 -> effs = []).
Proof. exact admin_effect_exact. Qed.
Print Assumptions C10_admin_effect.

(* ... and nothing else: every other topic is untouched (its own pump aside); a refused
   request leaves the whole state as it was *)
Theorem C10_admin_nothing_else : forall c st r p op s tok st',
  tls_gate c = false -> healthy_env c -> In (p, op) admin_paths ->
  r_method r = MPost -> r_path r = str p ->
  run c st r = (Resp s tok, st') ->
  (s <> 200 -> st' = settle st) /\
  (forall t', (forall ps t, r_query r = QOk ps -> qget k_topic ps = Some t -> t' <> t) ->
              lookup t' st' = option_map settle_topic (lookup t' st)).
Proof. exact admin_touches_only_named. Qed.
Print Assumptions C10_admin_nothing_else.

(* an effect never changes a topic it does not name; a channel operation leaves the topic's
   own flags and its other channels alone *)
Theorem C10_effect_frame : forall st e t', effect_topic e <> Some t' ->
  lookup t' (apply_effect st e) = lookup t' st.
Proof. exact apply_effect_other_topic. Qed.
Print Assumptions C10_effect_frame.
Theorem C10_channel_frame : forall st t ch (f : chan_st -> chan_st) ts,
  lookup t st = Some ts ->
  exists ts', lookup t (update t (set_chans (update ch f)) st) = Some ts' /\
    ts_paused ts' = ts_paused ts /\ ts_depth ts' = ts_depth ts /\
    lookup ch (ts_chans ts') = option_map f (lookup ch (ts_chans ts)) /\
    forall ch', ch' <> ch -> lookup ch' (ts_chans ts') = lookup ch' (ts_chans ts).
Proof. exact chan_op_frame. Qed.
Print Assumptions C10_channel_frame.

(* ---------------------------------------------------------------- non-vacuity *)
Definition ex_cfg : cfg := mkCfg 64 320 3600000000000 false true false true true [str "log_level"].
Definition ex_req (m : method) (p : string) (q : list (bytes * bytes)) (b : bytes) : request :=
  mkReq m (str p) (QOk q) (Declared (blen b)) b false false.

Example C10_ex_healthy : healthy_env ex_cfg.
Proof. repeat split. Qed.

(* F1 witness: /pub?topic=t&defer=18446744073710 (ms -> ns wraps past 2^63) is 400 INVALID_DEFER *)
Example C10_ex_F1 :
  fst (serve ex_cfg [] (ex_req MPost "/pub" [(str "topic", str "t"); (str "defer", str "18446744073710")] (str "x")))
  = Resp 400 (str "INVALID_DEFER").
Proof. vm_compute. reflexivity. Qed.
Example C10_ex_F1_neg :
  fst (serve ex_cfg [] (ex_req MPost "/pub" [(str "topic", str "t"); (str "defer", str "-1")] (str "x")))
  = Resp 400 (str "INVALID_DEFER").
Proof. vm_compute. reflexivity. Qed.

(* an accepted deferred publish and its DPUB twin: same effects *)
Example C10_ex_dpub :
  serve ex_cfg [] (ex_req MPost "/pub" [(str "topic", str "t"); (str "defer", str "3600000")] (str "hello"))
  = (Resp 200 OKb, [ECreateTopic (str "t"); EEnqueue (str "t") [str "hello"] 3600000000000]) /\
  tcp_dpub ex_cfg (str "t") (str "3600000") 5 (str "hello")
  = TcpOk [ECreateTopic (str "t"); EEnqueue (str "t") [str "hello"] 3600000000000].
Proof. vm_compute. split; reflexivity. Qed.

(* binary batch, two messages; a negative count is refused by both *)
Example C10_ex_mpub_binary :
  let p := (enc32 2 ++ enc32 1 ++ [97%N] ++ enc32 2 ++ [98%N; 99%N])%list in
  serve ex_cfg [] (ex_req MPost "/mpub" [(str "topic", str "t"); (str "binary", str "true")] p)
  = (Resp 200 OKb, [ECreateTopic (str "t"); EEnqueue (str "t") [[97%N]; [98%N; 99%N]] 0]) /\
  tcp_mpub ex_cfg (str "t") (blen p) p = TcpOk [ECreateTopic (str "t"); EEnqueue (str "t") [[97%N]; [98%N; 99%N]] 0].
Proof. vm_compute. split; reflexivity. Qed.
Example C10_ex_mpub_negative_count :
  let p := [255%N; 255%N; 255%N; 255%N; 0%N; 0%N; 0%N; 1%N; 97%N] in
  fst (serve ex_cfg [] (ex_req MPost "/mpub" [(str "topic", str "t"); (str "binary", str "1")] p)) = Resp 413 (str "BAD_BODY") /\
  tcp_mpub ex_cfg (str "t") (blen p) p = TcpErr E_BAD_BODY [ECreateTopic (str "t")].
Proof. vm_compute. split; reflexivity. Qed.

(* admin: deleting one channel of one topic touches nothing else; an unknown topic is 404 and nothing *)
Definition ex_state : state :=
  [(str "a", mkTopic false 0 [(str "c1", mkChan false 2); (str "c2", mkChan true 1)]);
   (str "b", mkTopic true 3 [])].
Example C10_ex_delete_channel :
  run ex_cfg ex_state (ex_req MPost "/channel/delete" [(str "topic", str "a"); (str "channel", str "c1")] [])
  = (Resp 200 [], [(str "a", mkTopic false 0 [(str "c2", mkChan true 1)]); (str "b", mkTopic true 3 [])]).
Proof. vm_compute. reflexivity. Qed.
Example C10_ex_unknown_topic :
  run ex_cfg ex_state (ex_req MPost "/topic/pause" [(str "topic", str "zzz")] [])
  = (Resp 404 (str "TOPIC_NOT_FOUND"), ex_state).
Proof. vm_compute. reflexivity. Qed.
(* router: wrong method, OPTIONS, trailing slash, case *)
Example C10_ex_router :
  map (fun mp => fst (serve ex_cfg [] (ex_req (fst mp) (snd mp) [] [])))
      [(MGet, "/pub"); (MOptions, "/pub"); (MPost, "/pub/"); (MGet, "/PING"); (MGet, "/nope"); (MDelete, "/ping")]%string
  = [Resp 405 (str "METHOD_NOT_ALLOWED"); Resp 200 []; Resp 307 []; Resp 301 []; Resp 404 (str "NOT_FOUND");
     Resp 405 (str "METHOD_NOT_ALLOWED")].
Proof. vm_compute. reflexivity. Qed.

(* the name-length boundary: 63 and 64 bytes (also 54 + #ephemeral) are accepted by every
   endpoint, 65 (55 + #ephemeral) is 400 *)
Definition name_of (n : nat) : bytes := repeat 98%N n.
Definition eph_of (n : nat) : bytes := (repeat 100%N n ++ str "#ephemeral")%list.
Example C10_ex_name_boundary :
  map (fun t => fst (serve ex_cfg [] (ex_req MPost "/topic/create" [(str "topic", t)] [])))
      [name_of 1; name_of 63; name_of 64; name_of 65; eph_of 53; eph_of 54; eph_of 55]
  = [Resp 200 []; Resp 200 []; Resp 200 []; Resp 400 (str "INVALID_TOPIC");
     Resp 200 []; Resp 200 []; Resp 400 (str "INVALID_TOPIC")] /\
  map (fun t => fst (serve ex_cfg [] (ex_req MPost "/pub" [(str "topic", t)] (str "x"))))
      [name_of 64; name_of 65; eph_of 54; eph_of 55]
  = [Resp 200 OKb; Resp 400 (str "INVALID_TOPIC"); Resp 200 OKb; Resp 400 (str "INVALID_TOPIC")] /\
  map (fun ch => fst (serve ex_cfg ex_state (ex_req MPost "/channel/create" [(str "topic", str "a"); (str "channel", ch)] [])))
      [name_of 64; name_of 65; eph_of 54; eph_of 55]
  = [Resp 200 []; Resp 400 (str "INVALID_ARG_CHANNEL"); Resp 200 []; Resp 400 (str "INVALID_ARG_CHANNEL")] /\
  map (fun t => tcp_pub ex_cfg t 1 (str "x")) [name_of 64; name_of 65]
  = [TcpOk [ECreateTopic (name_of 64); EEnqueue (name_of 64) [str "x"] 0]; TcpErr E_BAD_TOPIC []].
Proof. vm_compute. repeat split; reflexivity. Qed.
(* the hypotheses of C10_admin_precondition / C10_pub_valid_accepted are satisfiable *)
Example C10_ex_precondition :
  admin_precondition (str "/channel/delete") ex_state (Some (str "a")) (Some (str "c1")) = Some true /\
  admin_precondition (str "/channel/delete") ex_state (Some (str "a")) (Some (str "zz")) = Some false /\
  admin_precondition (str "/topic/create") ex_state (Some (name_of 64)) None = Some true /\
  admin_precondition (str "/topic/create") ex_state (Some (name_of 65)) None = Some false /\
  defer_documented ex_cfg (str "3600000") = true /\ defer_documented ex_cfg (str "3600001") = false.
Proof. vm_compute. repeat split; reflexivity. Qed.
