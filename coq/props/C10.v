(* C10 — nsqd HTTP API.  Property theorems only. *)
From Coq Require Import String List ZArith.
From NSQV Require Import gen.NsqdRoutes model.Http proofs.HttpProofs.
Import ListNotations.

Theorem C10_route_table : model_route_table = nsqd_routes.
Proof. exact route_table_matches_source. Qed.
Print Assumptions C10_route_table.
