(* C12 — message ids are unique and increasing per topic.  Property theorems only. *)
From Coq Require Import List ZArith.
From NSQV Require Import gen.Consts model.Guid proofs.GuidProofs.
Import ListNotations.
Open Scope Z_scope.

(* For every factory state and EVERY clock stream (not assumed monotone), the ids
   returned by successive NewGUID calls strictly increase from the last id issued. *)
Theorem C12_strict_calls : forall s clock, StrictInc (g_lastid s) (ids_of (calls s clock)).
Proof. exact calls_strict. Qed.
Print Assumptions C12_strict_calls.

(* The same for publishes (Topic.GenerateID retries until NewGUID succeeds):
   any number of publishes, any clock stream. *)
Theorem C12_strict_publishes : forall n s clock, StrictInc (g_lastid s) (issue n s clock).
Proof. exact issue_strict. Qed.
Print Assumptions C12_strict_publishes.

Theorem C12_unique : forall n s clock, NoDup (issue n s clock).
Proof. exact issue_NoDup. Qed.
Print Assumptions C12_unique.

(* When the generator cannot produce a fresh id it returns an error and never moves
   lastID: no id is reused or skipped over. *)
Theorem C12_no_reuse_on_error : forall s ts,
  match snd (new_guid s ts) with
  | GId _ => True
  | _ => g_lastid (fst (new_guid s ts)) = g_lastid s
  end.
Proof. exact error_keeps_lastid. Qed.
Print Assumptions C12_no_reuse_on_error.

(* Bit layout for every node id in [0,1024), sequence in [0,4096) and 41 bits of
   timestamp: the three fields are disjoint. *)
Theorem C12_layout : forall ts node seq,
  0 <= node < 1024 -> 0 <= seq < 4096 -> 0 <= ts - nsqd_twepoch < 2199023255552 ->
  mk_id ts node seq = layout ts node seq.
Proof. exact mk_id_layout. Qed.
Print Assumptions C12_layout.

(* ... so the (timestamp, sequence) discipline orders ids even without the lastID guard *)
Theorem C12_layout_ordered : forall ts1 seq1 ts2 seq2 node,
  0 <= seq1 < 4096 -> 0 <= seq2 < 4096 -> 0 <= node < 1024 ->
  (ts1 < ts2 \/ (ts1 = ts2 /\ seq1 < seq2)) ->
  layout ts1 node seq1 < layout ts2 node seq2.
Proof. exact layout_lex_mono. Qed.
Print Assumptions C12_layout_ordered.

(* The publish waits, then proceeds: once the clock reads a later millisecond than
   lastTimestamp the next call succeeds (invariant Inv holds initially and is
   preserved by every call whose clock reading is in range). *)
Theorem C12_inv_init : forall node, 0 <= node < 1024 -> Inv (mkG node 0 0 0).
Proof. exact Inv_init. Qed.
Print Assumptions C12_inv_init.
Theorem C12_inv_step : forall s ts, Inv s -> in_range ts -> Inv (fst (new_guid s ts)).
Proof. exact Inv_step. Qed.
Print Assumptions C12_inv_step.
Theorem C12_progress : forall s ts, Inv s -> in_range ts -> g_lastts s < ts ->
  exists id, snd (new_guid s ts) = GId id /\ id = layout ts (g_node s) 0.
Proof. exact progress. Qed.
Print Assumptions C12_progress.

(* the 16-hex rendering *)
Theorem C12_hex_length : forall g, length (hex g) = 16%nat.
Proof. exact hex_length. Qed.
Print Assumptions C12_hex_length.
Theorem C12_hex_injective : forall a b,
  - two63 <= a < two63 -> - two63 <= b < two63 -> hex a = hex b -> a = b.
Proof. exact hex_injective. Qed.
Print Assumptions C12_hex_injective.

(* the node-id range test at start-up *)
Theorem C12_node_range : forall id, node_id_ok id = true <-> 0 <= id < 1024.
Proof. exact node_id_ok_spec. Qed.
Print Assumptions C12_node_range.

(* non-vacuity: sequence exhaustion (4096th id of a millisecond) is refused, the retry in
   the same millisecond is refused by the lastID guard, the next millisecond succeeds *)
Example C12_witness_exhaustion :
  let s := mkG 7 4095 1700000000000 (layout 1700000000000 7 4095) in
  map code_of_res (calls s [1700000000000; 1700000000000; 1700000000001]) = [2; 3; 0].
Proof. vm_compute. reflexivity. Qed.

(* The model is tied to the CURRENT source: the order-of-effects facts about nsqd's core
   functions that the model assumes (proofs/CoreSrcDefs.v) hold of the statement skeletons
   regenerated from /repo on this run (gen/CoreShape.v). *)
From NSQV Require proofs.CoreSrcDefs proofs.CoreSrcC12.
Theorem C12_source_shape : CoreSrcDefs.src_facts_C12.
Proof. exact CoreSrcC12.src_C12. Qed.
Print Assumptions C12_source_shape.
