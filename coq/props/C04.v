(* C04 -- timeouts and delays are honoured: never early, boundedly late, range-checked.
   Property theorems only (statements; proofs are in proofs/NumProofs.v, HeapProofs.v,
   DeadlineProofs.v). *)
From Coq Require Import List ZArith NArith Bool Permutation.
From NSQV Require Import gen.Consts model.Judge model.Num model.Heap model.Deadline
  proofs.NumProofs proofs.HeapProofs proofs.DeadlineProofs
  model.ScanPick proofs.ScanPickProofs.
Import ListNotations.

(* ================================================================== range checks,
   for EVERY way of writing the number.  [dec_value p] is the mathematical value of the
   digit string p (unbounded), [ms_ns p] = dec_value p * 10^6. *)

(* ByteToBase10 fails exactly on strings containing a non-digit ... *)
Theorem C04_b10_spec :
  (forall p, byte_to_base10 p = None <-> all_digits p = false) /\
  (forall p, all_digits p = true ->
  byte_to_base10 p = Some (N.min (dec_value p) max_u64)).
Proof. exact (conj (b10_none_iff) (b10_digits)). Qed.
Print Assumptions C04_b10_spec.

(* ... and otherwise yields the value, saturated at 2^64-1 (never wrapped) *)

(* REQ uses min(value, max-req-timeout): any length, any number of leading zeros,
   values beyond 2^64 included *)
Theorem C04_req_clamp_full :
  (forall max_req p, (0 <= max_req <= max_i64)%Z ->
  req_param max_req p =
    if all_digits p then ReqDelay (Z.min (ms_ns p) max_req) else ReqInvalid) /\
  (forall k p,
  dec_value (repeat 48%N k ++ p) = dec_value p /\
  all_digits (repeat 48%N k ++ p) = all_digits p).
Proof. exact (conj (req_param_spec) (leading_zeros_irrelevant)). Qed.
Print Assumptions C04_req_clamp_full.


(* DPUB is accepted iff 0 <= value <= max-req-timeout, and then uses exactly the value.
   (max_req = MaxInt64 ns exactly is excluded: see C04_dpub_edge below.) *)
Theorem C04_defer_range_full :
  (forall max_req p, (0 <= max_req < max_i64)%Z ->
  dpub_param max_req p =
    if all_digits p && (ms_ns p <=? max_req)%Z then DpubDelay (ms_ns p) else DpubInvalid) /\
  (forall max_req s, (0 <= max_req < max_i64)%Z ->
  http_defer_raw max_req s =
    if int_text s && (0 <=? int_value s)%Z && (int_value s * ns_per_ms <=? max_req)%Z
    then DpubDelay (int_value s * ns_per_ms) else DpubInvalid).
Proof. exact (conj (dpub_param_spec) (http_defer_raw_spec)). Qed.
Print Assumptions C04_defer_range_full.

(* HTTP /pub?defer=s: for every string s, accepted iff s is the text of an integer
   (optional sign, decimal digits) whose value v satisfies 0 <= v ms <= max-req-timeout *)

(* RDY is accepted iff 0 <= value <= max-rdy-count (C03's range half, same parser) *)
Theorem C04_rdy_range_full : forall max_rdy p, (0 <= max_rdy <= max_i64)%Z ->
  rdy_param max_rdy p =
    if all_digits p && (Z.of_N (dec_value p) <=? max_rdy)%Z
    then RdyOk (Z.of_N (dec_value p)) else RdyInvalid.
Proof. exact rdy_param_spec. Qed.
Print Assumptions C04_rdy_range_full.

(* the one configuration where "rejected outside [0, max]" fails: max-req-timeout set to
   exactly MaxInt64 ns; a delay of 9223372036855 ms is then accepted as MaxInt64 ns *)
Theorem C04_dpub_edge :
  let p := [57;50;50;51;51;55;50;48;51;54;56;53;53]%N in
  (ms_ns p > max_i64)%Z /\ dpub_param max_i64 p = DpubDelay max_i64.
Proof. exact dpub_edge_at_max_i64. Qed.
Print Assumptions C04_dpub_edge.

(* the theorems above apply to the shipped defaults (regenerated from nsqd/options.go) *)
Theorem C04_defaults_in_range :
  (0 <= nsqd_opt_MaxReqTimeout < max_i64)%Z /\ (0 <= nsqd_opt_MaxRdyCount <= max_i64)%Z /\
  (0 <= nsqd_opt_MsgTimeout <= nsqd_opt_MaxMsgTimeout)%Z.
Proof. vm_compute. repeat split; discriminate. Qed.
Print Assumptions C04_defaults_in_range.

(* IDENTIFY msg_timeout: accepted iff 0 (keep the default) or 1000 <= v and v ms <= max *)
Theorem C04_msg_timeout :
  (forall max_msg cur v,
  (exists t, set_msg_timeout max_msg cur v = Some t) <->
  (v = 0 \/ (1000 <= v /\ v * 1000000 <= max_msg))%Z) /\
  (forall max_msg cur v t,
  (0 <= cur <= max_msg)%Z -> set_msg_timeout max_msg cur v = Some t -> (0 <= t <= max_msg)%Z).
Proof. exact (conj (set_msg_timeout_accept_iff) (set_msg_timeout_bounded)). Qed.
Print Assumptions C04_msg_timeout.


(* ================================================================== TOUCH *)
(* the deadline after delivery and ANY sequence of TOUCHes never exceeds
   deliveryTS + max-msg-timeout ... *)
Theorem C04_touch_deadline :
  (forall delivery timeout max_msg touches,
  (timeout <= max_msg)%Z ->
  (deadline_after delivery timeout max_msg touches <= delivery + max_msg)%Z) /\
  (forall delivery timeout max_msg touches,
  deadline_after delivery timeout max_msg touches =
    match rev touches with
    | [] => (delivery + timeout)%Z
    | (now, mt) :: _ => Z.min (now + mt) (delivery + max_msg)
    end).
Proof. exact (conj (touch_cap_any_sequence) (deadline_after_spec)). Qed.
Print Assumptions C04_touch_deadline.

(* ... and is exactly delivery + timeout, re-based by the last TOUCH to
   min(t_touch + msg_timeout, delivery + max-msg-timeout): never earlier *)

(* ================================================================== the heaps *)
(* heap order and index back-pointers are preserved by every operation of both queues *)
Theorem C04_push :
  ((forall q p v q', hwf q -> if_push q p v = Some q' ->
  hwf q' /\ Permutation (keys (arr q')) ((p, v) :: keys (arr q))) /\
  (forall q p v q', hwf q -> ch_push q p v = Some q' ->
  hwf q' /\ Permutation (keys (arr q')) ((p, v) :: keys (arr q)))) /\
  (forall q p v, cap_ok q ->
  exists q', if_push q p v = Some q' /\ cap_ok q').
Proof. exact (conj ((conj (if_push_wf) (ch_push_wf))) (if_push_total)). Qed.
Print Assumptions C04_push.
Theorem C04_pop_wf_both :
  (forall q x q', hwf q -> if_pop q = Some (x, q') ->
  hwf q' /\ removed q 0 x q' /\ (forall k, (k < length (arr q))%nat -> (pri x <= P (arr q) k)%Z)) /\
  (forall q x q', hwf q -> ch_pop q = Some (x, q') ->
  hwf q' /\ removed q 0 x q' /\ (forall k, (k < length (arr q))%nat -> (pri x <= P (arr q) k)%Z)).
Proof. exact (conj (if_pop_wf) (ch_pop_wf)). Qed.
Print Assumptions C04_pop_wf_both.
(* Remove(index m) removes exactly m: what comes out is the entry at that index, its
   back-pointer is reset, and the multiset of the rest is unchanged *)
Theorem C04_remove :
  ((forall q i x q', hwf q -> if_remove q i = Some (x, q') ->
  hwf q' /\ removed q (Z.to_nat i) x q') /\
  (forall q i x q', hwf q -> ch_remove q i = Some (x, q') ->
  hwf q' /\ removed q (Z.to_nat i) x q')) /\
  (forall q i x q', (i < length (arr q))%nat -> removed q i x q' ->
  Permutation (keys (arr q')) (firstn i (keys (arr q)) ++ skipn (S i) (keys (arr q)))) /\
  (forall q i,
  (0 <= i < Z.of_nat (length (arr q)))%Z <-> exists r, if_remove q i = Some r).
Proof. exact (conj ((conj (if_remove_wf) (ch_remove_wf))) (conj (removed_rest) (if_remove_defined))). Qed.
Print Assumptions C04_remove.
(* the container/heap driven deferred queue *)

(* ================================================================== never early *)
(* PeekAndShift(t) hands out an entry only if its priority is <= t, and that entry is the
   one that leaves the queue -- for ANY array content, well-formed or not *)
Theorem C04_never_early :
  ((forall q t x q', if_peek q t = (PeekSome x, q') ->
  (pri x <= t)%Z /\ removed q 0 x q') /\
  (forall q t x q', ch_peek q t = (PeekSome x, q') ->
  (pri x <= t)%Z /\ removed q 0 x q')) /\
  ((forall q t out q',
  if_scan q t = (out, q') -> Forall (fun x => (pri x <= t)%Z) out) /\
  (forall q t out q',
  ch_scan q t = (out, q') -> Forall (fun x => (pri x <= t)%Z) out)).
Proof. exact (conj ((conj (if_peek_never_early) (ch_peek_never_early))) ((conj (if_scan_never_early) (ch_scan_never_early)))). Qed.
Print Assumptions C04_never_early.
(* hence everything a scan at t releases was due, whatever the queue looked like *)

(* ================================================================== boundedly late *)
(* on a well-formed heap PeekAndShift(t) returns an entry whenever one is due, and it is
   a minimum *)
Theorem C04_peek_complete :
  ((forall q t k, hwf q ->
  (k < length (arr q))%nat -> (P (arr q) k <= t)%Z -> exists x q', if_peek q t = (PeekSome x, q')) /\
  (forall q t k, hwf q ->
  (k < length (arr q))%nat -> (P (arr q) k <= t)%Z -> exists x q', ch_peek q t = (PeekSome x, q'))) /\
  ((forall q t, hwf q ->
  match if_peek q t with
  | (PeekNone _, q') => q' = q /\ forall k, (k < length (arr q))%nat -> (t < P (arr q) k)%Z
  | (PeekSome x, q') => hwf q' /\ forall k, (k < length (arr q))%nat -> (pri x <= P (arr q) k)%Z
  end) /\
  (forall q t, hwf q ->
  match ch_peek q t with
  | (PeekNone _, q') => q' = q /\ forall k, (k < length (arr q))%nat -> (t < P (arr q) k)%Z
  | (PeekSome x, q') => hwf q' /\ forall k, (k < length (arr q))%nat -> (pri x <= P (arr q) k)%Z
  end)).
Proof. exact (conj ((conj ((peek_due if_peek if_peek_spec)) ((peek_due ch_peek ch_peek_spec)))) ((conj (if_peek_spec) (ch_peek_spec)))). Qed.
Print Assumptions C04_peek_complete.

(* scan-complete: one scan at t (processInFlightQueue / processDeferredQueue, queue side)
   releases EXACTLY the entries with priority <= t, earliest first, and leaves a
   well-formed heap of exactly the others.  So an entry is late by at most the interval
   between two scans of its channel. *)
Theorem C04_scan_complete :
  (forall q t out q', hwf q -> if_scan q t = (out, q') ->
  Permutation (keys out) (filter (due t) (keys (arr q))) /\
  Permutation (keys (arr q')) (filter (not_due t) (keys (arr q))) /\
  hwf q' /\ Forall (fun x => idx x = (-1)%Z) out /\
  (forall lo, (forall k, (k < length (arr q))%nat -> (lo <= P (arr q) k)%Z) -> sorted_from lo out)) /\
  (forall q t out q', hwf q -> ch_scan q t = (out, q') ->
  Permutation (keys out) (filter (due t) (keys (arr q))) /\
  Permutation (keys (arr q')) (filter (not_due t) (keys (arr q))) /\
  hwf q' /\ Forall (fun x => idx x = (-1)%Z) out /\
  (forall lo, (forall k, (k < length (arr q))%nat -> (lo <= P (arr q) k)%Z) -> sorted_from lo out)).
Proof. exact (conj (if_scan_complete) (ch_scan_complete)). Qed.
Print Assumptions C04_scan_complete.

(* ================================================================== the channel machine
   (StartInFlightTimeout / TouchMessage / FinishMessage / RequeueMessage /
   PutMessageDeferred / processInFlightQueue(t) / processDeferredQueue(t) on one channel,
   each call one step) -- over EVERY history *)

(* from a fresh channel, whatever the history: no step panics or finds map and heap out of
   step, both heaps stay well-formed and hold exactly the ids of their maps *)
Theorem C04_machine_invariant : forall max_msg capacity ops, (1 <= capacity)%nat ->
  Inv (fst (run max_msg (empty_chan capacity) ops)) /\
  ~ In Broken (snd (run max_msg (empty_chan capacity) ops)).
Proof. exact reachable_inv. Qed.
Print Assumptions C04_machine_invariant.

(* the TOUCH cap as a state invariant: in every reachable state every in-flight deadline is
   <= its message's deliveryTS + max-msg-timeout (msg_timeouts <= max; any TOUCH pattern) *)
Theorem C04_touch_cap_every_history : forall max_msg capacity ops, (1 <= capacity)%nat ->
  Forall (op_ok max_msg) ops -> Capped max_msg (fst (run max_msg (empty_chan capacity) ops)).
Proof. exact reachable_capped. Qed.
Print Assumptions C04_touch_cap_every_history.

(* the deadline an operation sets *)
Theorem C04_sets_deadline :
  ((forall max_msg c now id cl timeout c', Inv c ->
  step max_msg c (StartInFlight now id cl timeout) = (c', Ok) ->
  In ((now + timeout)%Z, id) (keys (arr (c_ifq c'))) /\ In (mkMsg id cl now) (c_inflight c')) /\
  (forall max_msg c now id cl mt c', Inv c ->
  step max_msg c (Touch now id cl mt) = (c', Ok) ->
  exists m, find_msg id (c_inflight c) = Some m /\ m_client m = cl /\
    In (Z.min (now + mt) (m_delivery m + max_msg), id) (keys (arr (c_ifq c'))) /\
    In m (c_inflight c'))) /\
  ((forall max_msg c now id delay c', Inv c ->
  step max_msg c (PutDeferred now id delay) = (c', Ok) ->
  In ((now + delay)%Z, id) (keys (arr (c_dfq c')))) /\
  (forall max_msg c now id cl delay c', Inv c -> delay <> 0%Z ->
  step max_msg c (Requeue now id cl delay) = (c', Ok) ->
  In ((now + delay)%Z, id) (keys (arr (c_dfq c'))))) /\
  (forall q p p' id, NoDup (vals q) ->
  In (p, id) (keys (arr q)) -> In (p', id) (keys (arr q)) -> p = p').
Proof. exact (conj ((conj (start_sets_deadline) (touch_sets_deadline))) (conj ((conj (putdef_sets_deadline) (requeue_sets_deadline))) (unique_deadline))). Qed.
Print Assumptions C04_sets_deadline.
(* ... and it is the only entry for that id *)

(* never early at the channel, in ANY state: whatever a scan at t releases had deadline <= t *)
Theorem C04_never_early_channel :
  (forall f mp q t,
  let '(_, _, ids) := scan_inflight f mp q t in
  forall id, In id ids -> exists p, In (p, id) (keys (arr q)) /\ (p <= t)%Z) /\
  (forall f mp q t,
  let '(_, _, ids) := scan_deferred f mp q t in
  forall id, In id ids -> exists p, In (p, id) (keys (arr q)) /\ (p <= t)%Z).
Proof. exact (conj (scan_inflight_never_early) (scan_deferred_never_early)). Qed.
Print Assumptions C04_never_early_channel.

(* boundedly late at the channel: in every state satisfying the invariant (every reachable
   state) a scan at t releases EXACTLY the messages whose deadline is <= t; exactly the
   others stay in flight / deferred *)
Theorem C04_scan_exact :
  (forall max_msg c t, Inv c ->
  exists ids, snd (step max_msg c (ScanInFlight t)) = Ready ids /\
  let c' := fst (step max_msg c (ScanInFlight t)) in
  Permutation ids (map snd (filter (due t) (keys (arr (c_ifq c))))) /\
  Permutation (keys (arr (c_ifq c'))) (filter (not_due t) (keys (arr (c_ifq c)))) /\
  Permutation (ids_if (c_inflight c')) (map snd (filter (not_due t) (keys (arr (c_ifq c)))))) /\
  (forall max_msg c t, Inv c ->
  exists ids, snd (step max_msg c (ScanDeferred t)) = Ready ids /\
  let c' := fst (step max_msg c (ScanDeferred t)) in
  Permutation ids (map snd (filter (due t) (keys (arr (c_dfq c))))) /\
  Permutation (keys (arr (c_dfq c'))) (filter (not_due t) (keys (arr (c_dfq c)))) /\
  Permutation (c_deferred c') (map snd (filter (not_due t) (keys (arr (c_dfq c)))))).
Proof. exact (conj (scan_inflight_exact) (scan_deferred_exact)). Qed.
Print Assumptions C04_scan_exact.

(* ================================================================== which channels a tick scans
   (queueScanLoop: util.UniqRands(min(QueueScanSelectionCount, #channels), #channels)),
   for EVERY stream of random numbers: distinct in-range channels, as many as asked for;
   and with no more channels than the selection count every tick scans every channel --
   so there the lateness of a due message is bounded by the time between two ticks *)
Theorem C04_tick_selection :
  (forall selection_count nchannels rs, (nchannels <= selection_count)%nat ->
     Permutation (tick_picks selection_count nchannels rs) (seq 0 nchannels)) /\
  (forall selection_count nchannels rs,
     NoDup (tick_picks selection_count nchannels rs) /\
     (forall x, In x (tick_picks selection_count nchannels rs) -> (x < nchannels)%nat) /\
     length (tick_picks selection_count nchannels rs) = Nat.min selection_count nchannels).
Proof. exact (conj tick_scans_all tick_scans_count). Qed.
Print Assumptions C04_tick_selection.

(* the fuel given to up/down by every caller is never the reason a loop stops *)
Theorem C04_fuel_irrelevant :
  (forall f1 f2 l j, (j <= f1)%nat -> (j <= f2)%nat -> up f1 l j = up f2 l j) /\
  (forall ch f1 f2 l i n, (n - i <= f1)%nat -> (n - i <= f2)%nat ->
  down ch f1 l i n = down ch f2 l i n).
Proof. exact (conj (up_fuel_irrelevant) (down_fuel_irrelevant)). Qed.
Print Assumptions C04_fuel_irrelevant.

(* ================================================================== non-vacuity *)
Open Scope Z_scope.
(* the repaired F1 witnesses: 18446744073710 ms is refused by DPUB and clamped by REQ;
   18446744073709551617 is refused by RDY *)
Example C04_witness_F1 :
  let w := [49;56;52;52;54;55;52;52;48;55;51;55;49;48]%N in
  dpub_param nsqd_opt_MaxReqTimeout w = DpubInvalid /\
  req_param nsqd_opt_MaxReqTimeout w = ReqDelay nsqd_opt_MaxReqTimeout /\
  http_defer_raw nsqd_opt_MaxReqTimeout w = DpubInvalid /\
  rdy_param nsqd_opt_MaxRdyCount [49;56;52;52;54;55;52;52;48;55;51;55;48;57;53;53;49;54;49;55]%N = RdyInvalid /\
  dpub_param nsqd_opt_MaxReqTimeout [48;48;51;54;48;48;48;48;48]%N = DpubDelay 3600000000000.
Proof. vm_compute. repeat split; reflexivity. Qed.

(* a well-formed heap with duplicate priorities exists; a scan at 5 takes three of its five entries *)
Definition demo_q : pq :=
  mkPq [mkItem 3 0 10; mkItem 5 1 11; mkItem 3 2 12; mkItem 9 3 13; mkItem 7 4 14] 8.
Example C04_witness_heap : hwf demo_q.
Proof. apply hwf_check_sound. vm_compute. reflexivity. Qed.
Example C04_witness_scan :
  map val (fst (if_scan demo_q 5)) = [10; 12; 11] /\
  map val (arr (snd (if_scan demo_q 5))) = [14; 13] /\
  map val (fst (ch_scan demo_q 5)) = [10; 12; 11].
Proof. vm_compute. repeat split; reflexivity. Qed.
(* TOUCH: cap reached on the second touch *)
Example C04_witness_touch :
  deadline_after 1000 60 900 [(1100, 60); (1900, 60)] = 1900 /\
  deadline_after 1000 60 900 [(1100, 60)] = 1160.
Proof. vm_compute. split; reflexivity. Qed.
Example C04_witness_msg_timeout :
  set_msg_timeout nsqd_opt_MaxMsgTimeout nsqd_opt_MsgTimeout 900000 = Some 900000000000 /\
  set_msg_timeout nsqd_opt_MaxMsgTimeout nsqd_opt_MsgTimeout 900001 = None /\
  set_msg_timeout nsqd_opt_MaxMsgTimeout nsqd_opt_MsgTimeout 999 = None /\
  set_msg_timeout nsqd_opt_MaxMsgTimeout nsqd_opt_MsgTimeout 0 = Some 60000000000.
Proof. vm_compute. repeat split; reflexivity. Qed.

(* a history on one channel: two deliveries, a TOUCH that hits the cap, a delayed requeue,
   a deferred publish; scans on both sides of the deadlines *)
Example C04_witness_history :
  snd (run 900 (empty_chan 1)
        [StartInFlight 1000 7 1 60; StartInFlight 1001 8 2 60; Touch 1890 7 1 60;
         ScanInFlight 1060; ScanInFlight 1061; Requeue 1062 7 1 5; PutDeferred 1063 9 5;
         ScanDeferred 1066; ScanDeferred 1068; ScanInFlight 1900; Touch 2000 7 1 60])
  = [Ok; Ok; Ok; Ready []; Ready [8]; Ok; Ok; Ready []; Ready [7; 9]; Ready []; Err].
Proof. vm_compute. reflexivity. Qed.

Example C04_witness_tick :
  tick_picks (Z.to_nat nsqd_opt_QueueScanSelectionCount) 5 [7; 3; 9; 1; 4; 8]%nat = [2; 4; 0; 1; 3]%nat /\
  length (tick_picks (Z.to_nat nsqd_opt_QueueScanSelectionCount) 50 (seq 3 40)) = 20%nat.
Proof. vm_compute. split; reflexivity. Qed.

(* Schedules (F22): one TOUCH racing one round of the in-flight timeout scan over the same
   message, statement by statement (each takes inFlightMutex for one step at a time), in EVERY
   interleaving and for every outcome of the two deadline comparisons: the message ends in
   exactly one place (queued again, or in flight WITH a timeout entry), and a TOUCH that was
   accepted and set a deadline beyond the scan's clock is not followed by a timeout from this
   round.  The scan is the one of the CURRENT source (re-read after the pop); without the
   re-read the statement is refuted. *)
From NSQV Require model.TouchScan proofs.TouchScanProofs proofs.TouchScanSrc.
Theorem C04_touch_vs_scan_every_interleaving : forall oe ne sched,
  In sched (TouchScan.merges 4 4) ->
  TouchScan.good_end ne (TouchScan.run TouchScanSrc.source_recheck oe ne sched) = true.
Proof. exact TouchScanSrc.source_touch_vs_scan. Qed.
Print Assumptions C04_touch_vs_scan_every_interleaving.

(* "every interleaving": every list with four steps of each party is among the merges *)
Theorem C04_interleavings_complete : forall n m sched,
  length (filter TouchScanProofs.is_scan sched) = n -> length (filter TouchScanProofs.is_touch sched) = m ->
  In sched (TouchScan.merges n m).
Proof. exact TouchScanProofs.merges_complete. Qed.
Print Assumptions C04_interleavings_complete.

Theorem C04_scan_without_reread_refuted :
  exists sched, In sched (TouchScan.merges 4 4) /\ TouchScan.good_end false (TouchScan.run false true false sched) = false.
Proof. exact TouchScanProofs.scan_without_recheck_refuted. Qed.
Print Assumptions C04_scan_without_reread_refuted.

(* One whole round of the timeout scan (F24): entries of the queue whose message is no longer in
   the in-flight set (stale) do not delay the others - every message that is in flight, has an
   entry among the due ones and whose deadline (as it is NOW) has passed is re-queued by this
   round; nothing else is.  Stated for the scan of the CURRENT source (it goes on after a failed
   pop); the scan that left its loop there (before b9d247f) is refuted. *)
From NSQV Require gen.CoreShape model.ScanRound proofs.ScanRoundProofs proofs.TouchScanSrc.
Theorem C04_stale_entries_do_not_delay_the_round : forall t in_set current pq m,
  ScanRound.all_due t pq -> In m (map ScanRound.e_id pq) -> in_set m = true -> (current m <= t)%Z ->
  In m (ScanRound.round (TouchScanSrc.scan_skips_stale CoreShape.shape_Channel_processInFlightQueue) t in_set current pq).
Proof. exact TouchScanSrc.source_due_messages_are_requeued. Qed.
Print Assumptions C04_stale_entries_do_not_delay_the_round.

Theorem C04_round_requeues_only_what_timed_out : forall skip t in_set current pq m,
  In m (ScanRound.round skip t in_set current pq) -> in_set m = true /\ (current m <= t)%Z.
Proof. exact ScanRoundProofs.only_due_messages_are_requeued. Qed.
Print Assumptions C04_round_requeues_only_what_timed_out.

Theorem C04_abandoning_round_refuted :
  exists t in_set current pq m,
    ScanRound.all_due t pq /\ In m (map ScanRound.e_id pq) /\ in_set m = true /\ (current m <= t)%Z /\
    ~ In m (ScanRound.round false t in_set current pq).
Proof. exact ScanRoundProofs.abandoning_round_refuted. Qed.
Print Assumptions C04_abandoning_round_refuted.

(* The model is tied to the CURRENT source: the order-of-effects facts about nsqd's core
   functions that the model assumes (proofs/CoreSrcDefs.v) hold of the statement skeletons
   regenerated from /repo on this run (gen/CoreShape.v). *)
From NSQV Require proofs.CoreSrcDefs proofs.CoreSrcC04.
Theorem C04_source_shape : CoreSrcDefs.src_facts_C04.
Proof. exact CoreSrcC04.src_C04. Qed.
Print Assumptions C04_source_shape.
