(* C11 — TLS-required and AUTH policies cannot be bypassed.  Property theorems only.

   Every theorem quantifies over every regexp semantics (re_match, re_ok), every policy
   configuration, every connection state, every oracle stream of auth-server answers,
   every clock reading and every command list of the model (model/Gate.v). *)
From Coq Require Import List NArith ZArith Bool String.
From NSQV Require Import model.Judge model.Names model.GateSyn model.Gate model.GateRe model.GateHttp
                         gen.GateTable proofs.GateProofs proofs.GateTableProofs proofs.GateHttpProofs.
Import ListNotations.
Open Scope list_scope.
Open Scope bool_scope.

(* ================================================================== C11_tls_gate *)
(* With TLS required and no TLS on the connection, every command other than IDENTIFY is
   answered with the fatal E_INVALID and nothing else happens: the connection record and
   the oracle stream are untouched, there is no effect, and the command is the last one
   executed on that connection. *)
Theorem C11_tls_gate : forall re_match re_ok cfg k o cmds es k' o' pre e post,
  c_tls_required cfg <> TlsNotRequired ->
  run re_match re_ok cfg k o cmds = (es, k', o') -> es = pre ++ e :: post ->
  k_tls (e_pre e) = false -> is_identify (e_cmd e) = false ->
  e_res e = mkRes (e_pre e) (e_oracle e) [RErr E_INVALID true] [] /\ post = [].
Proof. exact tls_gate_run. Qed.
Print Assumptions C11_tls_gate.

(* The TLS flag is set only by a completed upgrade inside an IDENTIFY that negotiated
   tls_v1 against a daemon with a TLS configuration, with a handshake the certificate
   policy accepts. *)
Theorem C11_tls_only_by_upgrade : forall re_match re_ok cfg k o cmds es k' o' pre e post,
  run re_match re_ok cfg k o cmds = (es, k', o') -> es = pre ++ e :: post ->
  k_tls k = false -> k_tls (e_pre e) = true ->
  existsb (fun x => upgraded x && may_upgrade cfg x) pre = true.
Proof. exact tls_only_by_upgrade. Qed.
Print Assumptions C11_tls_only_by_upgrade.

(* Hence: with TLS required, a connection on which no IDENTIFY completes an upgrade executes
   nothing at all — no topic, channel, message, subscription, not even an auth query. *)
Theorem C11_tls_nothing_without_upgrade : forall re_match re_ok cfg k o cmds es k' o',
  c_tls_required cfg <> TlsNotRequired -> k_tls k = false ->
  run re_match re_ok cfg k o cmds = (es, k', o') ->
  existsb upgraded es = false ->
  forall e, In e es -> e_fx e = [].
Proof. exact tls_nothing_without_upgrade. Qed.
Print Assumptions C11_tls_nothing_without_upgrade.

(* From the regenerated Exec table: every command other than IDENTIFY is dispatched after
   the gate; the gate is Gate.gate_blocks; client.TLS has a single writer (UpgradeTLS)
   whose single caller is IDENTIFY; the dispatched words are the model's. *)
Theorem C11_exec_table_gate : forall r, In r exec_table -> row_cmd r <> "IDENTIFY"%string -> row_after_gate r = true.
Proof. exact exec_table_gate. Qed.
Print Assumptions C11_exec_table_gate.
Theorem C11_exec_table_words :
  incl_b (map row_cmd exec_table) model_words = true /\
  incl_b model_words (map row_cmd exec_table) = true /\
  forallb (fun r => String.eqb (row_cmd r) (row_handler r)) exec_table = true /\
  existsb (fun r => String.eqb (row_cmd r) "IDENTIFY"%string && negb (row_after_gate r)) exec_table = true.
Proof. exact exec_table_words. Qed.
Print Assumptions C11_exec_table_words.
Theorem C11_enforce_is_gate : forall cfg k, eval_guard enforce_guard cfg k = Some (gate_blocks cfg k).
Proof. exact enforce_is_gate_blocks. Qed.
Print Assumptions C11_enforce_is_gate.
Theorem C11_enforce_fatal : enforce_returns = [mkErr "E_INVALID"%string true].
Proof. exact (proj2 enforce_shape). Qed.
Print Assumptions C11_enforce_fatal.
Theorem C11_tls_flag_single_writer :
  tls_flag_writers = ["UpgradeTLS"%string] /\ upgrade_tls_callers = ["IDENTIFY"%string].
Proof. exact tls_flag_single_writer. Qed.
Print Assumptions C11_tls_flag_single_writer.

(* Plaintext HTTP answers 403 iff tls_required = required (so it serves under tcp-https and
   when TLS is not required); the TLS listener never refuses; and this is how NSQD.Main
   wires the two servers and what ServeHTTP tests, per the regenerated tables. *)
Theorem C11_http_plain_403_iff : forall cfg, http_plain_refused cfg = true <-> c_tls_required cfg = TlsRequired.
Proof. exact http_plain_403_iff. Qed.
Print Assumptions C11_http_plain_403_iff.
Theorem C11_https_never_refused : forall cfg, https_refused cfg = false.
Proof. exact https_never_refused. Qed.
Print Assumptions C11_https_never_refused.
Theorem C11_http_wiring_plain : forall cfg, eval_wiring cfg "httpListener" = Some (plain_wiring cfg).
Proof. exact wiring_plain. Qed.
Print Assumptions C11_http_wiring_plain.
Theorem C11_http_wiring_https : forall cfg, eval_wiring cfg "httpsListener" = Some (https_wiring cfg).
Proof. exact wiring_https. Qed.
Print Assumptions C11_http_wiring_https.
Theorem C11_http_wiring_complete : List.length http_wirings = 2%nat /\ http_ctor_stores_params = true.
Proof. exact wiring_complete. Qed.
Print Assumptions C11_http_wiring_complete.
Theorem C11_servehttp_shape : servehttp_guard = GuardNotEnabledAndRequired 403.
Proof. exact servehttp_shape. Qed.
Print Assumptions C11_servehttp_shape.

(* ------------------------------------------------------------------ over the listeners a daemon has *)
(* [ad] says which of --http-address / --https-address are given.  With tls_required =
   required EVERY plaintext request (every endpoint, http_step's hreq) is answered 403 and
   changes nothing, whether or not the daemon has an HTTPS listener; otherwise the request
   is served. *)
Theorem C11_http_plain_refuses_everything : forall cfg ad w q,
  c_tls_required cfg = TlsRequired -> a_http ad = true ->
  http_exchange cfg ad Plain w q = Some (403%N, w).
Proof. exact plain_refuses_everything. Qed.
Print Assumptions C11_http_plain_refuses_everything.
Theorem C11_http_plain_serves_otherwise : forall cfg ad w q,
  c_tls_required cfg <> TlsRequired -> a_http ad = true ->
  http_exchange cfg ad Plain w q = Some (http_step w q).
Proof. exact plain_serves_otherwise. Qed.
Print Assumptions C11_http_plain_serves_otherwise.
Theorem C11_http_plain_exchange_403_iff : forall cfg ad w q, a_http ad = true ->
  ((exists w', http_exchange cfg ad Plain w q = Some (403%N, w')) <-> c_tls_required cfg = TlsRequired).
Proof. exact plain_403_iff. Qed.
Print Assumptions C11_http_plain_exchange_403_iff.
Theorem C11_http_plain_independent_of_https : forall cfg ad b w q,
  http_exchange cfg (mkAddrs (a_http ad) b) Plain w q = http_exchange cfg ad Plain w q.
Proof. exact plain_independent_of_https. Qed.
Print Assumptions C11_http_plain_independent_of_https.
(* a client-certificate policy alone (tls_required not given) refuses plaintext HTTP *)
Theorem C11_http_policy_refuses_plain : forall raw cfg ad w q,
  startup raw = Some cfg -> c_policy raw <> PolNone -> c_tls_required raw <> TlsRequiredExceptHTTP ->
  a_http ad = true -> http_exchange cfg ad Plain w q = Some (403%N, w).
Proof. exact policy_refuses_plain. Qed.
Print Assumptions C11_http_policy_refuses_plain.
Theorem C11_https_exchange : forall cfg ad w q,
  http_exchange cfg ad Https w q = if c_tls_config cfg && a_https ad then Some (http_step w q) else None.
Proof. exact https_exchange. Qed.
Print Assumptions C11_https_exchange.
Theorem C11_http_no_listener_no_answer : forall cfg ad w q,
  (a_http ad = false -> http_exchange cfg ad Plain w q = None) /\
  (c_tls_config cfg && a_https ad = false -> http_exchange cfg ad Https w q = None).
Proof. exact no_listener_no_answer. Qed.
Print Assumptions C11_http_no_listener_no_answer.
(* no trace: on either listener a request answered 403 left topics, counts and channels alone *)
Theorem C11_http_refused_no_trace : forall cfg ad l w q st w',
  http_exchange cfg ad l w q = Some (st, w') -> st = 403%N -> w' = w.
Proof. exact refused_no_trace. Qed.
Print Assumptions C11_http_refused_no_trace.
Theorem C11_http_handlers_never_403 : forall w q, fst (http_step w q) <> 403%N.
Proof. exact http_step_not_403. Qed.
Print Assumptions C11_http_handlers_never_403.
(* the listeners nsqd.New creates and NSQD.Main serves, per the regenerated tables *)
Theorem C11_http_listens_plain : forall cfg ad, eval_listens cfg ad "httpListener" = Some (plain_listens cfg ad).
Proof. exact listens_plain. Qed.
Print Assumptions C11_http_listens_plain.
Theorem C11_http_listens_https : forall cfg ad, eval_listens cfg ad "httpsListener" = Some (https_listens cfg ad).
Proof. exact listens_https. Qed.
Print Assumptions C11_http_listens_https.
Theorem C11_http_listens_complete :
  map (fun h => (hl_listener h, hl_func h, hl_tls h)) http_listens =
    [("httpListener", "New", false); ("httpsListener", "New", true)]%string.
Proof. exact listens_complete. Qed.
Print Assumptions C11_http_listens_complete.
Theorem C11_http_serves_shape :
  http_serves = [mkServe "httpListener" "httpListener" "httpListener";
                 mkServe "httpsListener" "httpsListener" "httpsListener"]%string.
Proof. exact serves_shape. Qed.
Print Assumptions C11_http_serves_shape.

(* nsqd.New: a daemon that starts and requires TLS has a certificate; a client-certificate
   policy makes TLS required. *)
Theorem C11_startup : forall raw cfg, startup raw = Some cfg ->
  (c_tls_required cfg <> TlsNotRequired -> c_tls_config cfg = true) /\
  (c_policy cfg <> PolNone -> c_tls_required cfg <> TlsNotRequired) /\
  c_authd cfg = c_authd raw /\ c_policy cfg = c_policy raw /\ c_tls_config cfg = c_tls_config raw /\
  (c_policy raw = PolNone -> c_tls_required cfg = c_tls_required raw).
Proof. exact startup_sound. Qed.
Print Assumptions C11_startup.

(* ================================================================== C11_auth_gate *)
(* With an auth server configured, on a connection that starts without a cached answer:
   a command that creates a topic or channel, enqueues a message or subscribes
     - is a PUB/MPUB/DPUB/SUB asking for permission (t, ch)  (ch = "" for the publishes),
     - touches nothing but that topic and channel,
     - comes after an AUTH that was answered with the success document,
     - and the answer in force — the cached one if it has not expired at this command's
       clock reading, otherwise the one fetched by the re-query this very command triggers —
       grants (t, ch); that answer is what some query of this connection (an AUTH or a
       re-query, possibly this command's own) obtained from the oracle stream. *)
Theorem C11_auth_gate : forall re_match re_ok cfg k o cmds es k' o' pre e post,
  auth_enabled cfg = true -> k_auth k = None ->
  run re_match re_ok cfg k o cmds = (es, k', o') -> es = pre ++ e :: post ->
  existsb is_world (e_fx e) = true ->
  exists t ch,
    demand (e_cmd e) = Some (t, ch) /\
    forallb (fx_within t ch) (e_fx e) = true /\
    existsb auth_succeeded pre = true /\
    exists a,
      answer_in_force re_ok cfg e = Some a /\
      state_is_allowed re_match a t ch = true /\
      (exists e', In e' (pre ++ [e]) /\ fetched re_ok cfg e' = Some a).
Proof. exact auth_gate_run. Qed.
Print Assumptions C11_auth_gate.

(* in all four handlers of the source the guarded CheckAuth precedes GetTopic, GetChannel,
   PutMessage(s) and AddClient, and the handlers' order of checks is the model's *)
Theorem C11_checkauth_first : forall h l, In (h, l) summaries -> auth_first l = true.
Proof. exact summaries_auth_first. Qed.
Print Assumptions C11_checkauth_first.
Theorem C11_handler_order_is_models :
  summary_SUB = model_order_SUB /\ summary_PUB = model_order_PUB /\
  summary_MPUB = model_order_MPUB /\ summary_DPUB = model_order_DPUB.
Proof. exact summaries_match_model. Qed.
Print Assumptions C11_handler_order_is_models.

(* what CheckAuth is asked in the source is the model's [demand]; the expiry test, the
   permission asked per kind of command, the accepted permission names and the TTL refusal of
   internal/auth are the model's *)
Theorem C11_checkauth_args :
  checkauth_args =
    [("SUB", "string(params[1])", "string(params[2])"); ("PUB", "string(params[1])", """""");
     ("MPUB", "string(params[1])", """"""); ("DPUB", "string(params[1])", """""")]%string.
Proof. exact checkauth_args_are_demand. Qed.
Print Assumptions C11_checkauth_args.
Theorem C11_auth_shapes :
  (isexpired_expr = "a.Expires.Before(time.Now())" /\
   isallowed_branch = ("channel != """"", "subscribe", "publish") /\
   queryauthd_known_perms = ["subscribe"; "publish"] /\
   queryauthd_ttl_refused = "authState.TTL <= 0" /\
   bytes_of_string "subscribe" = s_subscribe /\ bytes_of_string "publish" = s_publish)%string.
Proof. exact auth_shapes. Qed.
Print Assumptions C11_auth_shapes.

(* ================================================================== C11_denial_no_trace *)
(* A command answered E_AUTH_FIRST / E_AUTH_FAILED / E_UNAUTHORIZED gets that single fatal
   answer, changes nothing visible (whatever the daemon's state was), and is the last
   command executed on the connection. *)
Theorem C11_denial_no_trace : forall re_match re_ok cfg k o cmds es k' o' pre e post,
  run re_match re_ok cfg k o cmds = (es, k', o') -> es = pre ++ e :: post ->
  has_denial (e_resps e) = true ->
  (exists c, is_denial c = true /\ e_resps e = [RErr c true]) /\
  existsb is_world (e_fx e) = false /\
  (forall w, apply_fxs w (e_fx e) = w) /\
  post = [].
Proof. exact denial_no_trace_run. Qed.
Print Assumptions C11_denial_no_trace.

(* every refusal CheckAuth can return in the source is a fatal error with one of these codes *)
Theorem C11_checkauth_fatal : forall r, In r checkauth_returns -> er_fatal r = true /\ denial_name (er_code r) = true.
Proof. exact checkauth_fatal. Qed.
Print Assumptions C11_checkauth_fatal.

(* the gates do not refuse everything: a well-formed PUB past the TLS gate, with auth off or
   a granting unexpired answer cached, is executed *)
Theorem C11_pub_executes : forall re_match re_ok cfg now k o t rest,
  gate_blocks cfg k = false -> is_valid_name t = true ->
  (auth_enabled cfg = false \/
   (has_authorizations k = true /\ exists a, k_auth k = Some a /\ is_expired a now = false /\
      state_is_allowed re_match a t [] = true)) ->
  r_resps (exec re_match re_ok cfg now k o (CPub (t :: rest) true)) = [ROk] /\
  r_fx (exec re_match re_ok cfg now k o (CPub (t :: rest) true)) = [FxGetTopic t; FxPut t 1].
Proof. exact pub_executes. Qed.
Print Assumptions C11_pub_executes.

(* The whole decision, both directions, with the documented error codes: a PUB/MPUB/DPUB/SUB
   that is past the TLS gate and its own syntactic checks
     - with no auth server configured: executes;
     - with no successful AUTH on the connection: E_AUTH_FIRST;
     - cached answer expired and the re-query fails: E_AUTH_FAILED;
     - answer in force does not grant (t, ch): E_UNAUTHORIZED;
     - answer in force grants (t, ch): executes;
   a refusal being the single fatal answer with no visible effect, an execution being the
   command's normal answer and exactly its normal effects. *)
Theorem C11_decision : forall re_match re_ok cfg now k o c t ch,
  gate_blocks cfg k = false -> presyntax_ok k c = true -> demand c = Some (t, ch) ->
  match decision re_match re_ok cfg now k o t ch with
  | Some e => r_resps (exec re_match re_ok cfg now k o c) = [RErr e true] /\
              filter is_world (r_fx (exec re_match re_ok cfg now k o c)) = []
  | None => r_resps (exec re_match re_ok cfg now k o c) = granted_resps c /\
            filter is_world (r_fx (exec re_match re_ok cfg now k o c)) = granted_world c
  end.
Proof. exact demand_decided. Qed.
Print Assumptions C11_decision.

(* ================================================================== non-vacuity *)
Open Scope N_scope.
Definition tA : str := [116;65].           (* "tA" *)
Definition tB : str := [116;66].           (* "tB" *)
Definition chX : str := [120].             (* "x" *)
Definition pat_tA : str := [94;116;65;36]. (* "^tA$" *)
Definition pat_any : str := [46;42].       (* ".*" *)
Definition grantA := mkAuthz pat_tA [pat_any] [s_publish; s_subscribe].
Definition grantB_pub := mkAuthz [94;116;66;36] [pat_any] [s_publish].
Definition cfg_tls_auth := mkCfg TlsRequired true PolNone 1.
Definition ident_tls := CIdentify (IdGood true true false false HbKeep (HsCert CertNone)).
Definition resps_of (x : list entry * conn * oracle) := map e_resps (fst (fst x)).
Definition fx_of (x : list entry * conn * oracle) := map e_fx (fst (fst x)).

(* TLS required: a PUB on the plaintext connection is refused and is the end; after the
   upgrade and AUTH the same PUB is executed; a PUB to another topic is denied, fatally,
   with no effect *)
Example C11_witness_tls_gate :
  resps_of (run kp_match kp_ok cfg_tls_auth conn_init [AState 10 [grantA]]
              [(0%Z, CNop); (0%Z, CPub [tA] true)]) = [[RErr E_INVALID true]].
Proof. vm_compute. reflexivity. Qed.

Example C11_witness_auth_gate :
  let r := run kp_match kp_ok cfg_tls_auth conn_init [AState 10 [grantA]]
             [(0%Z, ident_tls); (1%Z, CAuth true (Some [115])); (2%Z, CPub [tA] true);
              (3%Z, CSub [tA; chX]); (4%Z, CPub [tB] true); (5%Z, CPub [tA] true)] in
  resps_of r = [[RIdent true true; ROk]; [RAuthOk 1]; [ROk]; [ROk]; [RErr E_UNAUTHORIZED true]] /\
  fx_of r = [[FxUpgradeTLS]; [FxAuthQuery [115] true CertNone]; [FxGetTopic tA; FxPut tA 1];
             [FxGetTopic tA; FxGetChannel tA chX; FxAddClient tA chX]; []].
Proof. vm_compute. split; reflexivity. Qed.

(* expiry: the cached answer is used up to its expiry instant (10 s), then re-fetched by the
   very command that needs it; the server has changed its mind, the new answer decides;
   a failing auth server at re-query time is E_AUTH_FAILED *)
Example C11_witness_expiry :
  let cfg := mkCfg TlsNotRequired false PolNone 1 in
  resps_of (run kp_match kp_ok cfg conn_init [AState 10 [grantA]; AState 10 [grantB_pub]]
              [(0%Z, CAuth true (Some [115])); (10000%Z, CPub [tA] true); (10001%Z, CPub [tB] true);
               (10002%Z, CPub [tA] true)])
    = [[RAuthOk 1]; [ROk]; [ROk]; [RErr E_UNAUTHORIZED true]] /\
  resps_of (run kp_match kp_ok cfg conn_init [AState 10 [grantA]; AError]
              [(0%Z, CAuth true (Some [115])); (10001%Z, CPub [tA] true)])
    = [[RAuthOk 1]; [RErr E_AUTH_FAILED true]] /\
  resps_of (run kp_match kp_ok cfg conn_init [] [(0%Z, CMpub [tA] (MpOk 3))]) = [[RErr E_AUTH_FIRST true]].
Proof. vm_compute. repeat split; reflexivity. Qed.

(* a publish grant whose channel patterns do not match the empty string does not allow
   publishing; a subscribe needs the "subscribe" permission and a matching channel pattern *)
Example C11_witness_grant_logic :
  let g1 := mkAS [mkAuthz pat_any [[94;120;36]] [s_publish; s_subscribe]] 0 in
  state_is_allowed kp_match g1 tA [] = false /\ state_is_allowed kp_match g1 tA chX = true /\
  state_is_allowed kp_match (mkAS [grantB_pub] 0) tB chX = false /\
  state_is_allowed kp_match (mkAS [grantB_pub] 0) tB [] = true.
Proof. vm_compute. repeat split; reflexivity. Qed.

(* each branch of the decision table is inhabited *)
Example C11_witness_decision :
  let cfg := mkCfg TlsNotRequired false PolNone 2 in
  let cached := mkConn StInit false (Some (mkAS [grantA] 5000%Z)) [115] false CertNone in
  decision kp_match kp_ok cfg 0%Z conn_init [] tA [] = Some E_AUTH_FIRST /\
  decision kp_match kp_ok cfg 5000%Z cached [] tA [] = None /\
  decision kp_match kp_ok cfg 5000%Z cached [] tB [] = Some E_UNAUTHORIZED /\
  decision kp_match kp_ok cfg 5001%Z cached [AError; AState 0 [grantA]] tA [] = Some E_AUTH_FAILED /\
  decision kp_match kp_ok cfg 5001%Z cached [AError; AState 10 [grantB_pub]] tB [] = None /\
  decision kp_match kp_ok (mkCfg TlsNotRequired false PolNone 0) 0%Z conn_init [] tA chX = None.
Proof. vm_compute. repeat split; reflexivity. Qed.

Example C11_witness_http :
  http_plain_refused (mkCfg TlsRequired true PolNone 0) = true /\
  http_plain_refused (mkCfg TlsRequiredExceptHTTP true PolNone 0) = false /\
  http_plain_refused (mkCfg TlsNotRequired true PolNone 0) = false /\
  startup (mkCfg TlsNotRequired true PolRequire 0) = Some (mkCfg TlsRequired true PolRequire 0) /\
  startup (mkCfg TlsRequired false PolNone 0) = None.
Proof. vm_compute. repeat split; reflexivity. Qed.

(* TLS required, a plaintext listener and NO https address: refused all the same, and the
   refused delete / publish / create leave the state alone; tcp-https serves *)
Example C11_witness_http_listeners :
  let w := mkW [([116;65], 3%N)] [([116;65], [120], 0%N)] in
  let req := mkCfg TlsRequired true PolNone 0 in
  http_exchange req (mkAddrs true false) Plain w (HDeleteTopic [116;65]) = Some (403%N, w) /\
  http_exchange req (mkAddrs true false) Plain w (HPub [116;66]) = Some (403%N, w) /\
  http_exchange req (mkAddrs true false) Https w HPing = None /\
  http_exchange req (mkAddrs true true) Https w (HCreateChannel [116;65] [121]) =
    Some (200%N, mkW [([116;65], 3%N)] [([116;65], [120], 0%N); ([116;65], [121], 0%N)]) /\
  http_exchange (mkCfg TlsRequiredExceptHTTP true PolNone 0) (mkAddrs true false) Plain w (HDeleteTopic [116;65]) = Some (200%N, mkW [] []) /\
  http_exchange (mkCfg TlsNotRequired false PolNone 0) (mkAddrs false true) Plain w HPing = None /\
  startup (mkCfg TlsNotRequired true PolRequireVerify 0) = Some (mkCfg TlsRequired true PolRequireVerify 0).
Proof. vm_compute. repeat split; reflexivity. Qed.
