(* C19 — nsq_to_file never acknowledges what it has not safely written.
   Property theorems only (proofs in proofs/FileLoggerProofs.v). *)
From Coq Require Import List ZArith NArith Bool.
From NSQV Require Import model.Judge model.FileOS model.FileLogger proofs.FileOSProofs proofs.FileLoggerProofs proofs.FileLoggerUnique proofs.FileMonitorProofs proofs.FileFaultProofs.
Import ListNotations.
Open Scope N_scope.

(* A configuration [c : cfg] includes the fault schedule (which write / gzip-close write /
   fsync / close / link / unlink / open of the logger fails with an error, and how much of a
   line a failing write left in the file): "for every configuration" below is also "for
   every set of failing system calls".

   For every configuration (gzip, rotate-size, rotate-interval, work-dir, skip-empty-files,
   max-in-flight, file name format, any datetime rendering function), every set of
   pre-existing files, every history of events (messages with arbitrary clock readings and
   starvation flags, sync ticks, HUP, TERM, consumer stop) and every instant of the run
   (every prefix p of the trace of file operations and FINs the logger emits): after a
   crash at that instant that loses the unsynced data (keeping an arbitrary part of it),
   every message finished so far has body ++ "\n" inside the durable content of a file
   (for gzip: inside a completed, hence decompressible, member). *)
Theorem C19_fin_after_sync : forall c fs0 es p q keep m,
  trace (run c fs0 es) = p ++ q -> In m (fins p) ->
  exists k f pre post,
    lookup (crash keep (replay fs0 p)) k = Some f /\
    flat (f_dur f) = pre ++ (snd m ++ [10]) ++ post.
Proof. exact fin_after_sync. Qed.
Print Assumptions C19_fin_after_sync.

(* Between any two instants p <= p ++ q of any run no operation shrinks or replaces a
   file: every name that exists keeps existing with its durable part and its whole content
   only extended; the single exception is a work-dir name, which may disappear when an
   output-dir name holds (an extension of) its content (the exclusive hand-off). *)
Theorem C19_no_overwrite : forall c fs0 es p q r,
  trace (run c fs0 es) = p ++ q ++ r ->
  fs_le (replay fs0 p) (replay fs0 (p ++ q)).
Proof. exact no_overwrite. Qed.
Print Assumptions C19_no_overwrite.

(* ... in particular every pre-existing output-dir file, colliding names included, is
   still there at the end with its old content as a prefix *)
Theorem C19_preexisting_preserved : forall c fs0 es k f,
  lookup fs0 k = Some f -> fst k = DOut ->
  exists f', lookup (fs (run c fs0 es)) k = Some f' /\ ext f f'.
Proof. exact preexisting_preserved. Qed.
Print Assumptions C19_preexisting_preserved.

(* the file system the theorems speak about is the replay of the emitted trace, which is
   what the correspondence check compares with the real syscall trace *)
Theorem C19_trace_is_the_run : forall c fs0 es,
  fs (run c fs0 es) = replay fs0 (trace (run c fs0 es)) /\
  rev (finished (run c fs0 es)) = fins (trace (run c fs0 es)).
Proof. exact fs_is_replay. Qed.
Print Assumptions C19_trace_is_the_run.

(* After a failed system call of the write path (write of a message, write inside
   gzipWriter.Close, fsync, close, link, unlink, open: [OFail] in the trace) no message is
   finished any more, and the logger is not running: it exits fatally instead.  With
   C19_fin_after_sync (a failed fsync makes nothing durable): a message whose bytes were not
   written and fsynced successfully is never finished. *)
Theorem C19_no_fin_after_failed_call : forall c fs0 es p w k q,
  trace (run c fs0 es) = p ++ OFail w k :: q ->
  fins q = [] /\ running (run c fs0 es) = false.
Proof. exact no_fin_after_fail. Qed.
Print Assumptions C19_no_fin_after_failed_call.

(* "In exactly one file": at every event boundary of every run in which the delivered
   message ids are distinct, over pre-existing files with distinct names (and no ghost
   tags), every finished message's line is in the durable part of a file, and no other
   file name holds a chunk written for that message (durable or not).  (Inside Close the
   link/unlink hand-off holds the content under two names for one instant; see
   C19_fin_after_sync for all instants.  For the same reason the unlink(2) of the hand-off
   must not fail: then the logger exits with the file under both names,
   C19_ex_two_names_after_failed_unlink.) *)
Theorem C19_exactly_one_file : forall c fs0 es m, (forall n, fault_at c FUnlink n = false) ->
  NoDup (keys fs0) -> fs_tags fs0 = [] -> NoDup (flat_map ev_id es) ->
  In m (finished (run c fs0 es)) ->
  exists k f, lookup (fs (run c fs0 es)) k = Some f /\ In (line m) (f_dur f) /\
    forall k' f', lookup (fs (run c fs0 es)) k' = Some f' -> In (fst m) (tags (content f')) -> k' = k.
Proof. exact exactly_one_file. Qed.
Print Assumptions C19_exactly_one_file.

(* ... and no message is written twice anywhere *)
Theorem C19_tags_unique : forall c fs0 es, (forall n, fault_at c FUnlink n = false) ->
  NoDup (keys fs0) -> fs_tags fs0 = [] -> NoDup (flat_map ev_id es) ->
  NoDup (keys (fs (run c fs0 es))) /\ NoDup (alltags (run c fs0 es)).
Proof. exact tags_unique. Qed.
Print Assumptions C19_tags_unique.

(* the decidable monitor that judges the implementation's observed traces (J19) accepts
   every trace of the model *)
Theorem C19_monitor_accepts_model : forall c fs0 es, NoDup (keys fs0) ->
  monitor_trace fs0 (trace (run c fs0 es)) = true.
Proof. exact monitor_accepts_model. Qed.
Print Assumptions C19_monitor_accepts_model.

(* ---------- non-vacuity ---------- *)
Definition ex_fmt : bytes := [116;60;82;69;86;62;46;108;111;103;46;103;122].   (* "t<REV>.log.gz" *)
Definition ex_cfg : cfg := mkCfg true 0 0 true false 2 ex_fmt (fun _ => []) (fun _ _ => false) (fun _ => O).
(* the same with one failing system call: the n-th of kind w *)
Definition ex_cfg_f (w : fkind) (n : N) : cfg :=
  mkCfg true 0 0 true false 2 ex_fmt (fun _ => []) (fun w' n' => fkind_eqb w w' && N.eqb n n') (fun _ => O).
Definition ex_name (r : N) : bytes := with_rev ex_fmt r.
Definition ex_pre : fsT := [((DOut, ex_name 0), mkFile [(None, [111;108;100;10])] [])].
Definition ex_events : list event :=
  [Msg (1, [97]) 5 false; Msg (2, [98]) 6 false; Msg (3, [99]) 7 false; Term; Stopped].

(* gzip + work dir + a colliding pre-existing name: messages 1..3 are finished, the run
   exits normally, the pre-existing file is untouched, the data went to rev 1 *)
Example C19_ex_finished :
  map fst (finished (run ex_cfg ex_pre ex_events)) = [2; 3; 1]
  /\ status_ (run ex_cfg ex_pre ex_events) = Exited
  /\ lookup (fs (run ex_cfg ex_pre ex_events)) (DOut, ex_name 0) = Some (mkFile [(None, [111;108;100;10])] [])
  /\ (exists f, lookup (fs (run ex_cfg ex_pre ex_events)) (DOut, ex_name 1) = Some f
               /\ flat (f_dur f) = [97;10;98;10;99;10]).
Proof. vm_compute. repeat split. eexists. split; reflexivity. Qed.

(* the hypotheses of C19_fin_after_sync are met with a non-empty finished set in the
   middle of that run (instant right after the first FIN) *)
Example C19_ex_instant :
  exists p q, trace (run ex_cfg ex_pre ex_events) = p ++ q /\ q <> [] /\ fins p = [(1, [97])].
Proof.
  exists (firstn 4 (trace (run ex_cfg ex_pre ex_events))), (skipn 4 (trace (run ex_cfg ex_pre ex_events))).
  split. symmetry. apply firstn_skipn. vm_compute. split. discriminate. reflexivity.
Qed.

Example C19_ex_unique_hyps :
  (forall n, fault_at ex_cfg FUnlink n = false) /\ NoDup (keys ex_pre) /\ fs_tags ex_pre = [] /\ NoDup (flat_map ev_id ex_events)
  /\ In (1, [97]) (finished (run ex_cfg ex_pre ex_events)).
Proof. split; [reflexivity|]. vm_compute. repeat split; repeat constructor; simpl; intuition discriminate. Qed.

(* Observation (not part of the property): after a successful work-dir -> output-dir move
   Close returns without clearing f.out; the next message hits the closed file, the tool
   exits fatally and that message is never finished (it stays owed by nsqd). *)
Example C19_ex_stale_handle :
  let s := run ex_cfg [] [Msg (1, [97]) 5 false; Hup; Msg (2, [98]) 6 false] in
  status_ s = Fatal /\ map fst (finished s) = [1] /\ out s = HStale (DWork, ex_name 0).
Proof. vm_compute. repeat split. Qed.

(* A failing fsync (the first one: Sync of the first full batch, gzip): the hypothesis of
   C19_no_fin_after_failed_call is met, nothing is ever finished, the logger exits fatally;
   the same when the gzip member cannot be completed; a plain write of message 2 that fails
   after one byte leaves that byte in the file and message 2 unfinished (message 1 was
   synced and finished when the file was opened). *)
Example C19_ex_failed_fsync :
  let s := run (ex_cfg_f FFsync 1) ex_pre ex_events in
  (exists p q, trace s = p ++ OFail FFsync (DWork, ex_name 1) :: q) /\ finished s = [] /\ status_ s = Fatal.
Proof.
  split; [|vm_compute; split; reflexivity].
  exists (firstn 2 (trace (run (ex_cfg_f FFsync 1) ex_pre ex_events))), (skipn 3 (trace (run (ex_cfg_f FFsync 1) ex_pre ex_events))).
  vm_compute. reflexivity.
Qed.

Example C19_ex_failed_gzip_close :
  let s := run (ex_cfg_f FGzClose 1) ex_pre ex_events in
  finished s = [] /\ status_ s = Fatal /\ fins (trace s) = [].
Proof. vm_compute. repeat split. Qed.

Example C19_ex_failed_plain_write :
  let c := mkCfg false 0 0 false false 2 ex_fmt (fun _ => []) (fun w n => fkind_eqb w FWrite && N.eqb n 2) (fun _ => 1%nat) in
  let s := run c [] ex_events in
  map fst (finished s) = [1] /\ status_ s = Fatal /\
  exists f, lookup (fs s) (DOut, ex_name 0) = Some f /\ flat (content f) = [97;10;98].
Proof. vm_compute. repeat split. eexists. split; reflexivity. Qed.

(* A failing unlink(2) in the work-dir -> output-dir hand-off: link(2) succeeded, the logger
   exits fatally, the (one) file keeps both names -- why C19_exactly_one_file assumes that
   this unlink does not fail.  Nothing is lost: message 1 is durable under both. *)
Example C19_ex_two_names_after_failed_unlink :
  let s := run (ex_cfg_f FUnlink 1) [] [Msg (1, [97]) 5 false; Hup] in
  status_ s = Fatal /\ map fst (finished s) = [1] /\
  exists f, lookup (fs s) (DWork, ex_name 0) = Some f /\ lookup (fs s) (DOut, ex_name 0) = Some f
            /\ In (line (1, [97])) (f_dur f).
Proof. vm_compute. repeat split. eexists. repeat split. left. reflexivity. Qed.
