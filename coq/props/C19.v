(* C19 — nsq_to_file never acknowledges what it has not safely written.
   Property theorems only (proofs in proofs/FileLoggerProofs.v). *)
From Coq Require Import List ZArith NArith Bool.
From NSQV Require Import model.Judge model.FileOS model.FileLogger proofs.FileOSProofs proofs.FileLoggerProofs proofs.FileLoggerUnique proofs.FileMonitorProofs.
Import ListNotations.
Open Scope N_scope.

(* For every configuration (gzip, rotate-size, rotate-interval, work-dir, skip-empty-files,
   max-in-flight, file name format, any datetime rendering function), every set of
   pre-existing files, every history of events (messages with arbitrary clock readings and
   starvation flags, sync ticks, HUP, TERM, consumer stop) and every instant of the run
   (every prefix p of the trace of file operations and FINs the logger emits): after a
   crash at that instant that loses the unsynced data (keeping an arbitrary part of it),
   every message finished so far has body ++ "\n" inside the durable content of a file
   (for gzip: inside a completed, hence decompressible, member). *)
Theorem C19_fin_after_sync : forall c fs0 es p q keep m,
  trace (run c fs0 es) = p ++ q -> In m (fins p) ->
  exists k f pre post,
    lookup (crash keep (replay fs0 p)) k = Some f /\
    flat (f_dur f) = pre ++ (snd m ++ [10]) ++ post.
Proof. exact fin_after_sync. Qed.
Print Assumptions C19_fin_after_sync.

(* Between any two instants p <= p ++ q of any run no operation shrinks or replaces a
   file: every name that exists keeps existing with its durable part and its whole content
   only extended; the single exception is a work-dir name, which may disappear when an
   output-dir name holds (an extension of) its content (the exclusive hand-off). *)
Theorem C19_no_overwrite : forall c fs0 es p q r,
  trace (run c fs0 es) = p ++ q ++ r ->
  fs_le (replay fs0 p) (replay fs0 (p ++ q)).
Proof. exact no_overwrite. Qed.
Print Assumptions C19_no_overwrite.

(* ... in particular every pre-existing output-dir file, colliding names included, is
   still there at the end with its old content as a prefix *)
Theorem C19_preexisting_preserved : forall c fs0 es k f,
  lookup fs0 k = Some f -> fst k = DOut ->
  exists f', lookup (fs (run c fs0 es)) k = Some f' /\ ext f f'.
Proof. exact preexisting_preserved. Qed.
Print Assumptions C19_preexisting_preserved.

(* the file system the theorems speak about is the replay of the emitted trace, which is
   what the correspondence check compares with the real syscall trace *)
Theorem C19_trace_is_the_run : forall c fs0 es,
  fs (run c fs0 es) = replay fs0 (trace (run c fs0 es)) /\
  rev (finished (run c fs0 es)) = fins (trace (run c fs0 es)).
Proof. exact fs_is_replay. Qed.
Print Assumptions C19_trace_is_the_run.

(* "In exactly one file": at every event boundary of every run in which the delivered
   message ids are distinct, over pre-existing files with distinct names (and no ghost
   tags), every finished message's line is in the durable part of a file, and no other
   file name holds a chunk written for that message (durable or not).  (Inside Close the
   link/unlink hand-off holds the content under two names for one instant; see
   C19_fin_after_sync for all instants.) *)
Theorem C19_exactly_one_file : forall c fs0 es m,
  NoDup (keys fs0) -> fs_tags fs0 = [] -> NoDup (flat_map ev_id es) ->
  In m (finished (run c fs0 es)) ->
  exists k f, lookup (fs (run c fs0 es)) k = Some f /\ In (line m) (f_dur f) /\
    forall k' f', lookup (fs (run c fs0 es)) k' = Some f' -> In (fst m) (tags (content f')) -> k' = k.
Proof. exact exactly_one_file. Qed.
Print Assumptions C19_exactly_one_file.

(* ... and no message is written twice anywhere *)
Theorem C19_tags_unique : forall c fs0 es,
  NoDup (keys fs0) -> fs_tags fs0 = [] -> NoDup (flat_map ev_id es) ->
  NoDup (keys (fs (run c fs0 es))) /\ NoDup (alltags (run c fs0 es)).
Proof. exact tags_unique. Qed.
Print Assumptions C19_tags_unique.

(* the decidable monitor that judges the implementation's observed traces (J19) accepts
   every trace of the model *)
Theorem C19_monitor_accepts_model : forall c fs0 es, NoDup (keys fs0) ->
  monitor_trace fs0 (trace (run c fs0 es)) = true.
Proof. exact monitor_accepts_model. Qed.
Print Assumptions C19_monitor_accepts_model.

(* ---------- non-vacuity ---------- *)
Definition ex_fmt : bytes := [116;60;82;69;86;62;46;108;111;103;46;103;122].   (* "t<REV>.log.gz" *)
Definition ex_cfg : cfg := mkCfg true 0 0 true false 2 ex_fmt (fun _ => []).
Definition ex_name (r : N) : bytes := with_rev ex_fmt r.
Definition ex_pre : fsT := [((DOut, ex_name 0), mkFile [(None, [111;108;100;10])] [])].
Definition ex_events : list event :=
  [Msg (1, [97]) 5 false; Msg (2, [98]) 6 false; Msg (3, [99]) 7 false; Term; Stopped].

(* gzip + work dir + a colliding pre-existing name: messages 1..3 are finished, the run
   exits normally, the pre-existing file is untouched, the data went to rev 1 *)
Example C19_ex_finished :
  map fst (finished (run ex_cfg ex_pre ex_events)) = [2; 3; 1]
  /\ status_ (run ex_cfg ex_pre ex_events) = Exited
  /\ lookup (fs (run ex_cfg ex_pre ex_events)) (DOut, ex_name 0) = Some (mkFile [(None, [111;108;100;10])] [])
  /\ (exists f, lookup (fs (run ex_cfg ex_pre ex_events)) (DOut, ex_name 1) = Some f
               /\ flat (f_dur f) = [97;10;98;10;99;10]).
Proof. vm_compute. repeat split. eexists. split; reflexivity. Qed.

(* the hypotheses of C19_fin_after_sync are met with a non-empty finished set in the
   middle of that run (instant right after the first FIN) *)
Example C19_ex_instant :
  exists p q, trace (run ex_cfg ex_pre ex_events) = p ++ q /\ q <> [] /\ fins p = [(1, [97])].
Proof.
  exists (firstn 4 (trace (run ex_cfg ex_pre ex_events))), (skipn 4 (trace (run ex_cfg ex_pre ex_events))).
  split. symmetry. apply firstn_skipn. vm_compute. split. discriminate. reflexivity.
Qed.

Example C19_ex_unique_hyps :
  NoDup (keys ex_pre) /\ fs_tags ex_pre = [] /\ NoDup (flat_map ev_id ex_events)
  /\ In (1, [97]) (finished (run ex_cfg ex_pre ex_events)).
Proof. vm_compute. repeat split; repeat constructor; simpl; intuition discriminate. Qed.

(* Observation (not part of the property): after a successful work-dir -> output-dir move
   Close returns without clearing f.out; the next message hits the closed file, the tool
   exits fatally and that message is never finished (it stays owed by nsqd). *)
Example C19_ex_stale_handle :
  let s := run ex_cfg [] [Msg (1, [97]) 5 false; Hup; Msg (2, [98]) 6 false] in
  status_ s = Fatal /\ map fst (finished s) = [1] /\ out s = HStale (DWork, ex_name 0).
Proof. vm_compute. repeat split. Qed.
