(* C13 — stats account for every message.  Property theorems only. *)
From Coq Require Import List NArith ZArith.
From NSQV Require Import model.Core proofs.CoreBase proofs.CoreStats proofs.CoreCountInv proofs.CoreClientCounts.
Import ListNotations.
Open Scope N_scope.

(* Within one daemon lifetime, for EVERY history of operations (publishes, subscriptions,
   RDY, deliveries, FIN/REQ/TOUCH, timeouts, pause, empty, delete, disconnects ...), every
   channel of every topic satisfies
     message_count = depth + in-flight + deferred + finished + emptied (+ dropped by an
                     ephemeral queue's overflow, which is zero on durable channels). *)
Theorem C13_channel_conservation : forall cfg ops, AllChans Cons (run cfg init ops).
Proof. exact conservation. Qed.
Print Assumptions C13_channel_conservation.

(* the same as a one-step invariant from any state that satisfies it *)
Theorem C13_conservation_step : forall cfg s o, AllChans Cons s -> AllChans Cons (fst (step cfg s o)).
Proof. exact conservation_step. Qed.
Print Assumptions C13_conservation_step.

(* a durable channel never drops: its c_lost stays empty, so the equation is exactly the
   property's (depth + in-flight + deferred + finished + emptied) *)
Theorem C13_durable_never_drops : forall cfg ops, AllChans Durable_lossless (run cfg init ops).
Proof. exact durable_lossless. Qed.
Print Assumptions C13_durable_never_drops.

(* topic counters: a publish of n messages of b bytes adds exactly n and b; nothing else does *)
Theorem C13_topic_counters : forall cfg s o tp', In tp' (s_topics (fst (step cfg s o))) ->
  topic_counts_ok cfg s o tp'.
Proof. exact topic_counters. Qed.
Print Assumptions C13_topic_counters.

(* each consumer's finish / requeue / message counters equal what that consumer actually
   did: the number of its FINs and REQs that were accepted and of the messages delivered to
   it, tallied over the whole history (answers included), for EVERY history *)
Theorem C13_client_counters_exact : forall cfg ops k kl,
  find_client (run cfg init ops) k = Some kl ->
  (k_fincount kl, k_reqcount kl, k_msgcount kl) = tally cfg init ops k.
Proof. exact client_counters_exact. Qed.
Print Assumptions C13_client_counters_exact.

(* its in-flight count equals the in-flight entries it owns on its channel, and is never negative *)
Theorem C13_client_inflight_exact : forall cfg ops tp ch kl,
  let s := run cfg init ops in
  In tp (s_topics s) -> In ch (t_chans tp) -> In kl (s_clients s) -> In (k_id kl) (c_clients ch) ->
  k_ifl kl = owned (k_id kl) (c_ifl ch) /\ k_sub kl = Some (t_id tp, c_id ch).
Proof. exact counter_exact. Qed.
Print Assumptions C13_client_inflight_exact.
Theorem C13_client_inflight_nonneg : forall cfg ops tp ch kl,
  let s := run cfg init ops in
  In tp (s_topics s) -> In ch (t_chans tp) -> In kl (s_clients s) -> In (k_id kl) (c_clients ch) ->
  (0 <= k_ifl kl)%Z.
Proof. exact counter_nonneg. Qed.
Print Assumptions C13_client_inflight_nonneg.

Example C13_client_witness :
  let cfg := mkCfg 10 900000000000%Z in
  let ops := [OCreateTopic 1 false; OConnect 7 1000%Z; OSub 7 1 1 false false 0%Z; ORdy 7 5%Z;
              OPub 1 false [10;11;12] 30 0%Z 1%Z; ODeliver 7 10 2%Z; ODeliver 7 11 2%Z; ODeliver 7 12 2%Z;
              OFin 7 10; OFin 7 10; OReq 7 11 0%Z 3%Z; OFin 9 12; ODeliver 7 11 4%Z] in
  tally cfg init ops 7 = (1, 1, 4).
Proof. vm_compute. reflexivity. Qed.

(* non-vacuity: a concrete history with overflow to "disk", a requeue, a timeout and an empty *)
Example C13_witness :
  let cfg := mkCfg 1 900000000000%Z in
  let s := run cfg init
     [OCreateTopic 1 false; OCreateChan 1 1 false false 0%Z; OConnect 7 60000000000%Z;
      OSub 7 1 1 false false 0%Z; ORdy 7 2%Z; OPub 1 false [10;11;12;13] 40 0%Z 1%Z;
      ODeliver 7 10 2%Z; ODeliver 7 12 2%Z; OReq 7 10 0%Z 3%Z; OFin 7 12;
      OScanInFlight 1 1 99999999999999%Z; OEmptyChan 1 1] in
  map (fun tp => map (fun ch => (c_msgcount ch, accounted ch, length (c_fin ch), length (c_emptied ch))) (t_chans tp)) (s_topics s)
  = [[(4, 4%nat, 1%nat, 3%nat)]].
Proof. vm_compute. reflexivity. Qed.

(* Schedules (F23): the consumer's in-flight count against the channel's in-flight set, step by
   step - deliveries (insert | count+1), FIN / REQ / timeouts (pop | count-1 if it popped) and
   Channel.Empty (take the set | count-1 per message taken), ANY number of them under ANY
   schedule: the count differs from the size of the set by exactly what the threads in progress
   still owe, and is the size of the set when they have finished.  The rule - whoever removes a
   message from the set takes it off the count, and only after the removal succeeded - is read
   off the CURRENT source; the zeroing Empty of the source before 72b06c9 is refuted (former
   known findings K1, K2). *)
From NSQV Require model.Counter proofs.CounterProofs proofs.CounterSrc.
Theorem C13_count_exact_every_schedule : forall ts sched,
  forallb Counter.fresh ts = true -> forallb Counter.no_zeroing ts = true ->
  let x := Counter.run (Counter.init ts) sched in
  (Counter.count x + CounterProofs.debt (Counter.threads x) = Z.of_nat (length (Counter.inflight x)))%Z /\
  (forallb Counter.finished (Counter.threads x) = true -> Counter.count x = Z.of_nat (length (Counter.inflight x))).
Proof. exact CounterProofs.count_exact_every_schedule. Qed.
Print Assumptions C13_count_exact_every_schedule.

Theorem C13_count_rule_in_the_source : CounterSrc.src_count_rule.
Proof. exact CounterSrc.src_count_rule_holds. Qed.
Print Assumptions C13_count_rule_in_the_source.

Theorem C13_zeroing_empty_refuted :
  exists ts sched, forallb Counter.fresh ts = true /\
    let x := Counter.run (Counter.init ts) sched in
    forallb Counter.finished (Counter.threads x) = true /\ Counter.count x <> Z.of_nat (length (Counter.inflight x)).
Proof. exact CounterProofs.zeroing_empty_refuted. Qed.
Print Assumptions C13_zeroing_empty_refuted.

(* The model is tied to the CURRENT source: the order-of-effects facts about nsqd's core
   functions that the model assumes (proofs/CoreSrcDefs.v) hold of the statement skeletons
   regenerated from /repo on this run (gen/CoreShape.v). *)
(* ... and it applies to EVERY connected, subscribed consumer: in every reachable state such a
   consumer is attached to its channel (deleting a channel or topic closes its consumers, an
   ephemeral channel only goes with its last consumer), so its counter equals the in-flight
   entries it owns there *)
From NSQV Require proofs.CoreAttached.
Theorem C13_connected_counter_exact : forall cfg ops kl t c,
  let s := run cfg init ops in
  In kl (s_clients s) -> k_alive kl = true -> k_sub kl = Some (t, c) ->
  exists ch, get_chan s t c = Some ch /\ In (k_id kl) (c_clients ch) /\ k_ifl kl = owned (k_id kl) (c_ifl ch).
Proof. exact CoreAttached.connected_counter_exact. Qed.
Print Assumptions C13_connected_counter_exact.

From NSQV Require proofs.CoreSrcDefs proofs.CoreSrcC13.
Theorem C13_source_shape : CoreSrcDefs.src_facts_C13.
Proof. exact CoreSrcC13.src_C13. Qed.
Print Assumptions C13_source_shape.
