(* C07 — message content and envelope integrity on every path.  Property theorems only.

   The history-level statement over the nsqd state machine (every delivery event of every
   history) belongs to model/Core.v; what is proved here is the part every such history
   is made of: the codecs are exact inverses for EVERY byte string, the frame stream is
   self-delimiting for EVERY content and EVERY chunking, multi-publish is all-or-nothing
   for EVERY input, and EVERY sequence of hops (memory, disk, restart, requeue,
   per-channel copy, delivery) keeps id, body and timestamp. *)
From Coq Require Import List NArith ZArith Bool.
From Coq Require String.
From NSQV Require Import gen.Consts gen.WireLayout model.Judge model.Guid model.Relay model.Wire
  proofs.GuidProofs proofs.RelayProofs proofs.WireProofs proofs.WireLayoutProofs
  gen.PoolUse model.Pool proofs.PoolProofs
  gen.WriteLock model.ConnWriter proofs.ConnWriterProofs proofs.ConnWriterSrc.
Import ListNotations.
Open Scope Z_scope.

(* ---------------------------------------------------------------- big-endian integers *)
Theorem C07_big_endian :
  (forall k v, be_dec (be_enc k v) = (v mod 256 ^ N.of_nat k)%N) /\
  (forall b, wf_bytes b -> be_enc (length b) (be_dec b) = b) /\
  (forall k v w,
  (v < 256 ^ N.of_nat k)%N -> (w < 256 ^ N.of_nat k)%N -> be_enc k v = be_enc k w -> v = w) /\
  (forall z, - two63 <= z < two63 ->
  i64_of_u64 (be_dec (be_enc 8 (u64_of_i64 z))) = z) /\
  (forall z, - two31 <= z < two31 ->
  i32_of_u32 (be_dec (be_enc 4 (u32_of_z z))) = z).
Proof. exact (conj be_dec_enc (conj be_enc_dec (conj be_enc_injective (conj be8_roundtrip be4_roundtrip)))). Qed.
Print Assumptions C07_big_endian.

(* ---------------------------------------------------------------- the message record *)
(* decodeMessage (WriteTo m) = m for every well-formed message: any body bytes, any body
   length >= 0, any int64 timestamp (negative included), any uint16 attempts.  (The
   in-memory deferred duration is not part of the record.) *)
Theorem C07_decode_encode_msg : forall m, wf_msg m ->
  decode_msg (encode_msg m) = DecOk (mkMsg (m_id m) (m_body m) (m_ts m) (m_attempts m) 0).
Proof. exact decode_encode_msg. Qed.
Print Assumptions C07_decode_encode_msg.

(* inputs shorter than minValidMsgLength are refused, all others decode, and no input makes
   decodeMessage slice out of range *)
Theorem C07_decode_guard :
  (forall b, len b < nsqd_minValidMsgLength -> decode_msg b = DecErr) /\
  (forall b, nsqd_minValidMsgLength <= len b -> exists m, decode_msg b = DecOk m) /\
  (forall b, decode_msg b <> DecPanic).
Proof. exact (conj decode_short (conj decode_long decode_never_panics)). Qed.
Print Assumptions C07_decode_guard.

(* every record that decodes is the encoding of the decoded message: the record format
   has no slack, nothing of a record is ignored *)
Theorem C07_record_exact :
  (forall b m, wf_bytes b -> decode_msg b = DecOk m ->
  encode_msg m = b /\ wf_msg m /\ m_deferred m = 0) /\
  (forall m1 m2, wf_msg m1 -> wf_msg m2 ->
  encode_msg m1 = encode_msg m2 ->
  m_id m1 = m_id m2 /\ m_body m1 = m_body m2 /\ m_ts m1 = m_ts m2 /\ m_attempts m1 = m_attempts m2).
Proof. exact (conj encode_decode_msg encode_msg_injective_fields). Qed.
Print Assumptions C07_record_exact.

(* ---------------------------------------------------------------- the body path *)
(* Whatever sequence of memory queues, disk queues (encode, backend, decode; also flush at
   exit and restart), requeues, per-channel copies and deliveries a message goes through,
   it always decodes, and its id, body and timestamp are those of the publish. *)
Theorem C07_path_preserves : forall p m, wf_msg m ->
  exists m', apply_path p m = DecOk m' /\ wf_msg m' /\
             m_id m' = m_id m /\ m_body m' = m_body m /\ m_ts m' = m_ts m.
Proof. exact path_preserves. Qed.
Print Assumptions C07_path_preserves.

(* on one channel (after the copy) attempts survives disk and requeue and counts deliveries *)
Theorem C07_path_attempts : forall p m m', wf_msg m -> no_copy p -> apply_path p m = DecOk m' ->
  m_attempts m' = ((m_attempts m + deliveries p) mod 65536)%N.
Proof. exact path_attempts. Qed.
Print Assumptions C07_path_attempts.

(* ---------------------------------------------------------------- frames and the stream *)
Theorem C07_unframe :
  (forall f, frame_ok f -> rrun rinit (frame_of f) = (rinit, [f])) /\
  (forall chunks st, rrun_chunks st chunks = rrun st (concat chunks)).
Proof. exact (conj unframe_frame rrun_chunks_concat). Qed.
Print Assumptions C07_unframe.

(* any sequence of frames, whatever their data bytes (newlines, NULs, bytes that look like
   a size or a command), written back to back and cut into arbitrary chunks, is read back
   as exactly that sequence, the reader ending in its initial state *)
Theorem C07_stream_chunked : forall fs chunks, Forall frame_ok fs ->
  concat chunks = flat_map frame_of fs -> rrun_chunks rinit chunks = (rinit, fs).
Proof. exact stream_chunked. Qed.
Print Assumptions C07_stream_chunked.

(* the transport (TLS, snappy, deflate at any level, bufio of any size, any flush policy) is
   ANY pair of functions satisfying the one stated law *)
Theorem C07_transport_stream : forall (tx : list bytes -> bytes) (rx : bytes -> list bytes),
  (forall writes, concat (rx (tx writes)) = concat writes) ->
  forall fs writes, Forall frame_ok fs -> concat writes = flat_map frame_of fs ->
  rrun_chunks rinit (rx (tx writes)) = (rinit, fs).
Proof. exact transport_stream. Qed.
Print Assumptions C07_transport_stream.

(* one delivery end to end, between arbitrary other traffic on the same connection *)
Theorem C07_end_to_end : forall (tx : list bytes -> bytes) (rx : bytes -> list bytes),
  (forall writes, concat (rx (tx writes)) = concat writes) ->
  forall m p before after writes,
    wf_msg m -> len (m_body m) + 30 < two31 ->
    Forall frame_ok before -> Forall frame_ok after ->
    exists m',
      apply_path p m = DecOk m' /\
      (concat writes = flat_map frame_of (before ++ [(nsqd_frameTypeMessage, encode_msg m')] ++ after) ->
       exists f, rrun_chunks rinit (rx (tx writes)) = (rinit, before ++ [f] ++ after) /\
                 exists got, recv_message f = DecOk got /\
                             (m_id got = m_id m /\ m_body got = m_body m /\ m_ts got = m_ts m) /\
                             m_attempts got = m_attempts m').
Proof. exact end_to_end. Qed.
Print Assumptions C07_end_to_end.

(* ---------------------------------------------------------------- PUB / DPUB / MPUB *)
Theorem C07_pub_body_exact :
  (forall max_msg b rest, body_ok max_msg b ->
  read_pub_body max_msg (encode_pub_body b ++ rest) = RdOk b rest) /\
  (forall max_msg s b rest, wf_bytes s -> read_pub_body max_msg s = RdOk b rest ->
  s = encode_pub_body b ++ rest /\ body_ok max_msg b).
Proof. exact (conj read_pub_body_encode read_pub_body_inv). Qed.
Print Assumptions C07_pub_body_exact.

Theorem C07_mpub_accepts :
  (forall max_msg max_body bodies rest, batch_ok max_msg max_body bodies ->
  read_mpub max_msg max_body (encode_mpub bodies ++ rest) = RdOk bodies rest) /\
  (forall max_msg max_body bodies rest,
  bodies <> [] -> Forall (body_ok max_msg) bodies ->
  len (encode_mpub bodies) <= max_body -> len (encode_mpub bodies) < two31 ->
  mpub_tcp max_msg max_body (encode_mpub_tcp bodies ++ rest) = RdOk bodies rest).
Proof. exact (conj read_mpub_encode mpub_tcp_encode). Qed.
Print Assumptions C07_mpub_accepts.

(* all or nothing, for every input: the queue is untouched, or extended by exactly the
   bodies the input spells out (all of them, in order, each within the limits) *)
Theorem C07_mpub_all_or_nothing_total :
  (forall max_msg max_body queue s, wf_bytes s ->
  let r := read_mpub max_msg max_body s in
  (exists e, r = RdErr e /\ publish_effect queue r = queue) \/
  (exists bodies rest, r = RdOk bodies rest /\ publish_effect queue r = queue ++ bodies /\
     s = encode_mpub bodies ++ rest /\ batch_ok max_msg max_body bodies)) /\
  (forall max_msg max_body s, read_mpub max_msg max_body s <> RdErr E_FUEL).
Proof. exact (conj mpub_all_or_nothing read_mpub_never_fuel). Qed.
Print Assumptions C07_mpub_all_or_nothing_total.

(* ---------------------------------------------------------------- HTTP *)
Theorem C07_http_pub : forall max_msg cl body, 0 <= max_msg -> cl <= max_msg ->
  http_pub max_msg cl body =
    if max_msg <? len body then HErr H_MSG_TOO_BIG
    else if len body =? 0 then HErr H_MSG_EMPTY else HOk [body].
Proof. exact http_pub_spec. Qed.
Print Assumptions C07_http_pub.

(* text /mpub publishes exactly the non-empty newline-separated blocks (a last block without
   trailing newline included), or nothing at all *)
Theorem C07_http_mpub_text : forall max_msg max_body cl body, 0 <= max_body -> cl <= max_body ->
  match http_mpub_text max_msg max_body cl body with
  | HOk l => l = split_nonempty nl body /\ len body <= max_body /\ blocks_ok max_msg l
  | HErr e => (e = H_BODY_TOO_BIG /\ max_body < len body) \/
              (e = H_MSG_TOO_BIG /\
               has_big max_msg (split_nonempty nl (firstn (Z.to_nat (max_body + 1)) body)))
  end.
Proof. exact http_mpub_text_spec. Qed.
Print Assumptions C07_http_mpub_text.

Theorem C07_http_mpub_text_cases :
  (forall max_msg max_body cl body, 0 <= max_body -> cl <= max_body ->
  len body <= max_body -> blocks_ok max_msg (split_nonempty nl body) ->
  http_mpub_text max_msg max_body cl body = HOk (split_nonempty nl body)) /\
  (forall max_msg max_body cl body, 0 <= max_body ->
  max_body < cl \/ max_body < len body \/ has_big max_msg (split_nonempty nl body) ->
  exists e, http_mpub_text max_msg max_body cl body = HErr e /\
            http_effect [] (http_mpub_text max_msg max_body cl body) = []) /\
  (forall max_msg max_body rs, 0 <= max_body ->
  Forall (good_record nl) rs -> blocks_ok max_msg rs -> len (join nl rs) + 1 <= max_body ->
  http_mpub_text max_msg max_body (len (join nl rs)) (join nl rs) = HOk rs /\
  http_mpub_text max_msg max_body (len (join nl rs ++ [nl])) (join nl rs ++ [nl]) = HOk rs).
Proof. exact (conj http_mpub_text_accepts (conj http_mpub_text_rejects http_mpub_text_join)). Qed.
Print Assumptions C07_http_mpub_text_cases.

Theorem C07_http_mpub_binary_exact :
  (forall max_msg max_body cl bodies, cl <= max_body ->
  batch_ok max_msg max_body bodies -> len (encode_mpub bodies) <= max_body ->
  http_mpub_binary max_msg max_body cl (encode_mpub bodies) = HOk bodies) /\
  (forall max_msg max_body cl body bodies, wf_bytes body ->
  http_mpub_binary max_msg max_body cl body = HOk bodies ->
  exists rest, body = encode_mpub bodies ++ rest /\ batch_ok max_msg max_body bodies /\
               len (encode_mpub bodies) <= Z.max 0 max_body).
Proof. exact (conj http_mpub_binary_accepts http_mpub_binary_inv). Qed.
Print Assumptions C07_http_mpub_binary_exact.

(* ---------------------------------------------------------------- ids *)
Theorem C07_ids :
  (forall g, id_is_hex16 (id_of_guid g) = true) /\
  (forall a b, - two63 <= a < two63 -> - two63 <= b < two63 ->
  id_of_guid a = id_of_guid b -> a = b).
Proof. exact (conj id_of_guid_hex16 id_of_guid_injective). Qed.
Print Assumptions C07_ids.

(* ---------------------------------------------------------------- non-vacuity *)
Definition ex_id : bytes := id_of_guid 1234567890123456789.
(* a body with a newline, a NUL, 0xff, and bytes that spell a frame header and a command *)
Definition ex_body : bytes := [10; 0; 255; 0; 0; 0; 6; 0; 0; 0; 2; 80; 85; 66; 32; 116; 10]%N.
Definition ex_msg : wmsg := mkMsg ex_id ex_body (-5) 65535 0.

Example C07_ex_wf : wf_msgb ex_msg = true.
Proof. vm_compute. reflexivity. Qed.

Example C07_ex_roundtrip : decode_msg (encode_msg ex_msg) = DecOk ex_msg.
Proof. vm_compute. reflexivity. Qed.

Example C07_ex_short : decode_msg (firstn 25 (encode_msg ex_msg)) = DecErr.
Proof. vm_compute. reflexivity. Qed.

(* disk, copy for the second channel, delivery, requeue, disk again, delivery *)
Example C07_ex_path :
  match apply_path [HDisk; HCopy 1; HDeliver; HRequeue 0; HDisk; HDeliver] (mkMsg ex_id ex_body (-5) 0 77) with
  | DecOk m' => bytes_eqb (m_id m') ex_id && bytes_eqb (m_body m') ex_body && (m_ts m' =? -5) && (m_attempts m' =? 2)%N
  | _ => false
  end = true.
Proof. vm_compute. reflexivity. Qed.

(* three frames (a response, the message, a heartbeat) cut at awkward places *)
Definition ex_frames : list (Z * bytes) :=
  [(0, [79; 75]%N); (2, encode_msg ex_msg); (0, [95; 104; 101; 97; 114; 116; 98; 101; 97; 116; 95]%N)].
Definition ex_stream : bytes := flat_map frame_of ex_frames.
Example C07_ex_stream :
  rrun_chunks rinit [firstn 3 ex_stream; firstn 9 (skipn 3 ex_stream); []; skipn 12 ex_stream] = (rinit, ex_frames).
Proof. vm_compute. reflexivity. Qed.

Example C07_ex_mpub :
  read_mpub 1048576 5242880 (encode_mpub [ex_body; [0]%N; [10; 10]%N]) = RdOk [ex_body; [0]%N; [10; 10]%N] [] /\
  read_mpub 16 5242880 (encode_mpub [ex_body; [0]%N]) = RdErr E_BAD_MESSAGE /\
  read_mpub 1048576 5242880 (encode_mpub []) = RdErr E_BAD_BODY /\
  read_mpub 1048576 13 (encode_mpub [[1]%N; [2]%N]) = RdErr E_BAD_BODY.
Proof. vm_compute. repeat split; reflexivity. Qed.

Example C07_ex_text :
  http_mpub_text 1048576 5242880 8 [97; 10; 10; 98; 99; 10; 100; 0]%N = HOk [[97]; [98; 99]; [100; 0]]%N /\
  http_mpub_text 2 5242880 8 [97; 10; 10; 98; 99; 100; 10; 101]%N = HErr H_MSG_TOO_BIG /\
  http_mpub_text 100 7 (-1) [97; 10; 10; 98; 99; 10; 100; 0]%N = HErr H_BODY_TOO_BIG.
Proof. vm_compute. repeat split; reflexivity. Qed.

(* a request without Content-Length (cl = -1): a body one byte over the limit and one far over
   it are refused, a body at the limit is published as it is *)
Definition ex_b16 : bytes := [49; 50; 51; 52; 53; 54; 55; 56; 57; 48; 49; 50; 51; 52; 53; 54]%N.
Example C07_ex_http_pub :
  http_pub 16 (-1) ex_b16 = HOk [ex_b16] /\
  http_pub 16 (-1) (ex_b16 ++ [55]%N) = HErr H_MSG_TOO_BIG /\
  http_pub 16 (-1) (ex_b16 ++ ex_b16 ++ [55; 56]%N) = HErr H_MSG_TOO_BIG /\
  http_effect [] (http_pub 16 (-1) (ex_b16 ++ [55; 56]%N)) = [] /\
  http_pub 16 17 (ex_b16 ++ [55]%N) = HErr H_MSG_TOO_BIG /\
  http_pub 16 (-1) [] = HErr H_MSG_EMPTY.
Proof. vm_compute. repeat split; reflexivity. Qed.

Import String.
(* ---------------------------------------------------------------- the source's layout *)
(* what Message.WriteTo / decodeMessage / SendFramedResponse / doMPUB say in their source
   text today (gen/WireLayout.v, regenerated on every run) is what the model assumes *)
Theorem C07_source_layout :
  wl_enc_hdr_len = 10 /\ wl_enc_puts = expected_msg_fields /\ wl_enc_writes = ["buf"; "ID"; "Body"]%string /\
  wl_dec_guard_op = "<"%string /\ wl_dec_min = nsqd_minValidMsgLength /\ wl_dec_gets = expected_msg_fields /\
  wl_dec_id = (wl_enc_hdr_len, wl_enc_hdr_len + nsqd_MsgIDLength) /\
  wl_dec_body_lo = wl_enc_hdr_len + nsqd_MsgIDLength /\
  nsqd_minValidMsgLength = wl_dec_body_lo /\
  wl_frame_extra = 4 /\ wl_frame_word = 4 /\
  wl_frame_puts = [("size", 0, 4, 4, true); ("frameType", 0, 4, 4, true)]%string /\
  wl_frame_writes = ["size"; "frameType"; "data"]%string /\
  wl_text_mpub_delims = [10; 10] /\
  nsqd_frameTypeMessage = 2.
Proof. exact source_layout_is_modelled. Qed.
Print Assumptions C07_source_layout.

(* ---------------------------------------------------------------- pooled serialisation buffers *)
(* SendMessage and writeMessageToBackend serialise into buffers taken from a shared pool
   and hand the buffer's memory to a sink that may block part-way (a full TCP window, a
   contended write lock, a slow disk queue).  Whatever number of such calls run
   concurrently, however their steps interleave, whichever buffer the pool hands out and
   however the sinks cut the writes: what a call's sink receives is a prefix of that call's
   own record, and exactly the record when the call is done.  The release discipline
   [src_late] is the one read from the Go source (gen/PoolUse.v, below). *)
Theorem C07_pooled_buffers_isolated : forall (recs : nat -> bytes) (sched : list (nat * nat)) (t : nat),
  let s := prun src_late (pinit recs) sched in
  (exists n, u_out (p_users s t) = firstn n (recs t)) /\
  (u_pc (p_users s t) = PDone -> u_out (p_users s t) = recs t).
Proof. exact Pool_isolation_source. Qed.
Print Assumptions C07_pooled_buffers_isolated.

(* the statement is not vacuous: the pool is used as a pool (the second call gets the first
   call's buffer back, its array still holding the first record) and interleaved calls
   complete; and it is not trivial: releasing before the write breaks it *)
Example C07_ex_pool_reuse :
  let s := prun true (pinit ex_recs) ex_seq in
  u_pc (p_users s 0%nat) = PDone /\ u_out (p_users s 0%nat) = ex_recs 0%nat /\
  u_pc (p_users s 1%nat) = PDone /\ u_out (p_users s 1%nat) = ex_recs 1%nat /\
  p_fresh s = 1%nat /\ p_free s = [0%nat].
Proof. exact Pool_example_reuse. Qed.

Example C07_ex_pool_interleaved :
  let s := prun true (pinit ex_recs) ex_interleaved in
  u_out (p_users s 0%nat) = ex_recs 0%nat /\ u_out (p_users s 1%nat) = ex_recs 1%nat /\ p_fresh s = 2%nat.
Proof. exact Pool_example_interleaved. Qed.

Theorem C07_pool_early_release_breaks :
  exists recs sched t,
    let s := prun false (pinit recs) sched in
    u_pc (p_users s t) = PDone /\ u_out (p_users s t) <> recs t.
Proof. exact Pool_early_release_refuted. Qed.
Print Assumptions C07_pool_early_release_breaks.

(* the functions of package nsqd that call bufferPoolGet today are the two the model
   describes; each gives the buffer back when neither it nor any alias of its memory is used
   any more; bufferPoolPut = Reset, then sync.Pool.Put; bufferPoolGet = sync.Pool.Get *)
Theorem C07_source_pool_discipline :
  pu_users = [("SendMessage", true); ("writeMessageToBackend", true)]%string /\
  src_late = true /\
  pu_put_calls = ["b.Reset"; "bp.Put"]%string /\ pu_get_is_pool_get = true.
Proof. exact Pool_source_discipline. Qed.
Print Assumptions C07_source_pool_discipline.

(* ---------------------------------------------------------------- the connection's shared output writer *)
(* The buffered writer of a client connection is written by several goroutines: the
   consumer's messagePump (message frames, heartbeats, the force flush when the client is
   not ready, the flush on the output-buffer-timeout ticker) and the IOLoop (the response or
   error frame of every command the same connection sends).  Whatever number of goroutines,
   whatever their programs of sends and flushes, however their steps interleave and however
   the transport cuts a flush into pieces and blocks between them: what the transport has
   been handed, followed by what a flush in progress has still to hand over and what is
   buffered, is the concatenation of whole frames; each goroutine's frames are in it exactly
   once and in that goroutine's order; no flush ever finds the buffer changed under it (no
   short write); and once nobody holds the lock and the buffer is empty the transport has
   exactly the frames.  [src_locks] is the lock discipline read from the Go source
   (gen/WriteLock.v, below): every site holds writeLock around its use of the writer. *)
Theorem C07_connection_writes_serialised : forall (progs : nat -> list wjob) (sched : list (nat * nat)),
  let s := wrun src_locks (winit progs) sched in
  (w_wire s ++ skipn (sent_of s) (w_buf s))%list = List.concat (map snd (w_log s)) /\
  (forall t, exists k, logged t (w_log s) = firstn k (frames_of (progs t))) /\
  (forall t, t_jobs (w_threads s t) = [] -> logged t (w_log s) = frames_of (progs t)) /\
  (forall t, t_failed (w_threads s t) = false) /\
  (w_lock s = None -> w_buf s = [] -> w_wire s = List.concat (map snd (w_log s))).
Proof. exact ConnWriter_serialised_source. Qed.
Print Assumptions C07_connection_writes_serialised.

(* not vacuous: the pump's timed flush of a buffered message frame is four bytes into the
   transport when the IOLoop wants to answer a command; it waits for the lock, and its frame
   follows the message frame *)
Example C07_ex_conn_writer_locked :
  let s := wrun (fun _ => true) (winit ex_wprogs) ex_wsched in
  w_wire s = (ex_wmsg_frame ++ ex_wok_frame)%list /\ w_buf s = [] /\ w_lock s = None /\
  t_jobs (w_threads s 0%nat) = [] /\ t_jobs (w_threads s 1%nat) = [] /\
  w_log s = [(0%nat, ex_wmsg_frame); (1%nat, ex_wok_frame)].
Proof. exact ConnWriter_example_locked. Qed.

(* and not trivial: with writeLock missing from the timed flush alone (every other site still
   locks) the same programs under the same schedule put more bytes on the wire than the
   frames have, and the pump dies on a short write *)
Theorem C07_timed_flush_without_lock_breaks :
  exists progs sched,
    let s := wrun locks_but_timed (winit progs) sched in
    (forall t, t_jobs (w_threads s t) = []) /\ w_buf s = [] /\ w_lock s = None /\
    w_wire s <> List.concat (map snd (w_log s)) /\
    (List.length (w_wire s) > List.length (List.concat (map snd (w_log s))))%nat /\
    t_failed (w_threads s 0%nat) = true.
Proof. exact ConnWriter_timed_flush_unlocked_refuted. Qed.
Print Assumptions C07_timed_flush_without_lock_breaks.

(* every use of a client connection's writer in package nsqd today: the IDENTIFY-time set-up
   (each function locks for its whole body), clientV2.Flush (no lock of its own: its callers
   are the next four lines), Send, and the two flushes of messagePump -- all under writeLock *)
Theorem C07_source_write_lock_discipline :
  wl_sites =
  [("SetOutputBuffer", "c.Writer", "if desiredSize != 0", true);
   ("SetOutputBuffer", "c.Writer", "if desiredSize != 0", true);
   ("UpgradeTLS", "c.Writer", "", true);
   ("UpgradeDeflate", "c.flateWriter", "", true);
   ("UpgradeDeflate", "c.Writer", "", true);
   ("UpgradeSnappy", "c.Writer", "", true);
   ("Flush", "c.Writer", "", false);
   ("Flush", "c.flateWriter", "", false);
   ("Flush", "c.flateWriter", "if c.flateWriter != nil", false);
   ("Send", "client.Writer", "", true);
   ("Send", "client.Flush", "if frameType != frameTypeMessage", true);
   ("messagePump", "client.Flush", "if subChannel == nil || !client.IsReadyForMessages()", true);
   ("messagePump", "client.Flush", "case <-flusherChan", true)]%string /\
  src_locks site_send = true /\ src_locks site_flush_notready = true /\ src_locks site_flush_timed = true /\
  src_others_ok = true.
Proof. exact ConnWriter_source_discipline. Qed.
Print Assumptions C07_source_write_lock_discipline.
