(* C08 — delete, empty and ephemeral semantics.  Property theorems only. *)
From Coq Require Import List NArith ZArith.
From NSQV Require proofs.CoreUnique proofs.CoreDiscard.
From NSQV Require Import model.Core proofs.CoreBase proofs.CoreLife proofs.CoreOwes proofs.CoreStats.
Import ListNotations.
Open Scope N_scope.

(* emptying discards everything queued, in flight and deferred at that moment, records it
   as discarded, keeps the subscriptions, the paused flag and the counters of messages
   received *)
Theorem C08_empty : forall ch,
  c_queue (ch_empty ch) = [] /\ c_ifl (ch_empty ch) = [] /\ c_dfr (ch_empty ch) = [] /\
  c_clients (ch_empty ch) = c_clients ch /\ c_paused (ch_empty ch) = c_paused ch /\
  c_msgcount (ch_empty ch) = c_msgcount ch /\ c_fin (ch_empty ch) = c_fin ch /\
  (forall m, In m (all_msgs ch) -> In (m_id m) (c_emptied (ch_empty ch))).
Proof. exact empty_chan_result. Qed.
Print Assumptions C08_empty.

(* ... and zeroes the in-flight counter of exactly the channel's subscribers *)
Theorem C08_empty_counters : forall cfg s t c ch,
  get_chan s t c = Some ch ->
  snd (step cfg s (OEmptyChan t c)) = ROk /\
  s_clients (fst (step cfg s (OEmptyChan t c))) =
    map (fun k => if existsb (N.eqb (k_id k)) (c_clients ch) then mkClient (k_id k) (k_state k) (k_alive k) (k_rdy k) 0%Z (k_sub k) (k_timeout k) (k_fincount k) (k_reqcount k) (k_msgcount k) else k) (s_clients s).
Proof. exact empty_chan_clients. Qed.
Print Assumptions C08_empty_counters.

(* with fresh ids a discarded message never re-enters the channel: ids are unique among
   queued/in flight/deferred/finished/discarded (see C02_single_holder) *)

(* deleting removes the object; a re-creation starts empty with zero counters *)
Theorem C08_delete_channel : forall cfg s t c tp, In tp (s_topics (fst (step cfg s (ODeleteChan t c)))) -> t_id tp = t ->
  snd (step cfg s (ODeleteChan t c)) = ROk -> forall ch, In ch (t_chans tp) -> c_id ch <> c.
Proof. exact delete_chan_gone. Qed.
Print Assumptions C08_delete_channel.
Theorem C08_delete_topic : forall cfg s t, snd (step cfg s (ODeleteTopic t)) = ROk ->
  forall tp, In tp (s_topics (fst (step cfg s (ODeleteTopic t)))) -> t_id tp <> t.
Proof. exact delete_topic_gone. Qed.
Print Assumptions C08_delete_topic.
Theorem C08_recreated_channel_empty : forall c eph,
  c_queue (new_chan c eph) = [] /\ c_ifl (new_chan c eph) = [] /\ c_dfr (new_chan c eph) = [] /\
  c_msgcount (new_chan c eph) = 0 /\ c_requeue (new_chan c eph) = 0 /\ c_timeout (new_chan c eph) = 0 /\
  c_clients (new_chan c eph) = [] /\ c_paused (new_chan c eph) = false.
Proof. exact recreated_chan_empty. Qed.
Print Assumptions C08_recreated_channel_empty.

(* ephemeral topics and channels never reach what a restart reloads (disk, metadata) *)
Theorem C08_ephemeral_not_persisted : forall s,
  Forall (fun tp => t_eph tp = false /\ Forall (fun ch => c_eph ch = false) (t_chans tp)) (s_topics (restart s)).
Proof. exact restart_no_ephemeral. Qed.
Print Assumptions C08_ephemeral_not_persisted.

(* no discarded message is delivered afterwards: in every reachable state (message ids are
   never reused) what an explicit empty discarded is neither queued, nor in flight, nor
   deferred on that channel, nor waiting in the topic; and a delivery can only take a
   message from the queue *)
Theorem C08_discarded_never_held_again : forall cfg ops tp ch x,
  CoreUnique.fresh_history [] ops = true ->
  In tp (s_topics (run cfg init ops)) -> In ch (t_chans tp) -> In x (c_emptied ch) ->
  ~ In x (map m_id (c_queue ch)) /\ ~ In x (map (fun e => m_id (i_msg e)) (c_ifl ch)) /\
  ~ In x (map (fun e => m_id (d_msg e)) (c_dfr ch)) /\ ~ In x (map m_id (t_queue tp)).
Proof. exact CoreDiscard.discarded_never_held_again. Qed.
Print Assumptions C08_discarded_never_held_again.

Theorem C08_discarded_not_deliverable : forall s kl ch x tp,
  CoreUnique.UniqueTopic tp -> In ch (t_chans tp) -> In x (c_emptied ch) -> deliverable s kl ch x = false.
Proof. exact CoreDiscard.discarded_not_deliverable. Qed.
Print Assumptions C08_discarded_not_deliverable.

(* counters stay right through every empty/delete: the conservation law of C13 is an
   invariant of every step, these included *)
Theorem C08_counters_stay_right : forall cfg s o, AllChans Cons s -> AllChans Cons (fst (step cfg s o)).
Proof. exact conservation_step. Qed.
Print Assumptions C08_counters_stay_right.

Example C08_witness :
  let cfg := mkCfg 2 900000000000%Z in
  let s := run cfg init
     [OCreateTopic 1 false; OCreateChan 1 1 false false 0%Z; OConnect 7 60000000000%Z; OSub 7 1 1 false false 0%Z;
      ORdy 7 1%Z; OPub 1 false [10;11;12] 30 0%Z 1%Z; ODeliver 7 10 2%Z; OEmptyChan 1 1;
      OConnect 8 60000000000%Z; OSub 8 1 3 false true 3%Z; OPub 1 false [13;14;15] 30 0%Z 4%Z; ODisconnect 8] in
  (map (fun tp => map (fun ch => (c_id ch, length (c_queue ch), length (c_ifl ch), c_emptied ch)) (t_chans tp)) (s_topics s),
   map (fun k => (k_id k, k_ifl k)) (s_clients s))
  = ([[(1, 3%nat, 0%nat, [11;12;10])]], [(7, 0%Z); (8, 0%Z)]).
Proof. vm_compute. reflexivity. Qed.

(* Schedules: Channel.Empty, the deletion of a channel and the deletion of a topic against ANY
   number of requeues / scans / puts in progress, under ANY interleaving - statements as the
   CURRENT source has them: the discard never runs while a message is in somebody's hand, so
   nothing that was there before outlives it (F18). *)
From NSQV Require model.Handoff proofs.HandoffProofs proofs.HandoffSrc proofs.HandoffCompose.
Theorem C08_discards_vs_moves_every_schedule : forall ks sched,
  forallb HandoffProofs.locked ks = true ->
  Handoff.missed (Handoff.run (Handoff.init ks HandoffCompose.src_channel_empty) sched) = false /\
  Handoff.missed (Handoff.run (Handoff.init ks HandoffCompose.src_channel_delete) sched) = false /\
  Handoff.missed (Handoff.run (Handoff.init ks HandoffCompose.src_topic_delete) sched) = false.
Proof. exact HandoffCompose.discards_miss_nothing. Qed.
Print Assumptions C08_discards_vs_moves_every_schedule.

(* The same protocol guards the consumer list: a SUB in progress (Channel.AddClient follows the
   movers' discipline in the CURRENT source) against the close or the deletion of its channel,
   ANY number of them, ANY interleaving: a subscriber answered OK is among the consumers the
   channel closes - never left attached to a dead channel. *)
Theorem C08_subscriber_closed_or_refused_every_schedule : forall ks sched m (del : bool),
  forallb HandoffProofs.locked ks = true ->
  In m (Handoff.movers (Handoff.run (Handoff.init ks (HandoffSrc.channel_closer_clients (HandoffSrc.path_of del CoreShape.shape_Channel_exit))) sched)) ->
  Handoff.lost (Handoff.run (Handoff.init ks (HandoffSrc.channel_closer_clients (HandoffSrc.path_of del CoreShape.shape_Channel_exit))) sched) m = false.
Proof. exact HandoffCompose.subscriber_closed_or_refused. Qed.
Print Assumptions C08_subscriber_closed_or_refused_every_schedule.

Theorem C08_addclient_follows_the_protocol : HandoffSrc.channel_mover CoreShape.shape_Channel_AddClient = true.
Proof. exact HandoffSrc.src_addclient_locked. Qed.
Print Assumptions C08_addclient_follows_the_protocol.

(* not vacuous: an Empty that takes no lock (the source before 00776ee) is refuted *)
Theorem C08_unlocked_empty_refuted :
  exists sched, let st := Handoff.run (Handoff.init [Handoff.Move] [Handoff.FDiscard]) sched in
                Handoff.missed st = true /\ map Handoff.m_loc (Handoff.movers st) = [Handoff.InDst] /\ Handoff.rest st = [].
Proof. exact HandoffProofs.unlocked_empty_refuted. Qed.
Print Assumptions C08_unlocked_empty_refuted.

(* The model is tied to the CURRENT source: the order-of-effects facts about nsqd's core
   functions that the model assumes (proofs/CoreSrcDefs.v) hold of the statement skeletons
   regenerated from /repo on this run (gen/CoreShape.v). *)
From NSQV Require proofs.CoreSrcDefs proofs.CoreSrcC08.
Theorem C08_source_shape : CoreSrcDefs.src_facts_C08.
Proof. exact CoreSrcC08.src_C08. Qed.
Print Assumptions C08_source_shape.
